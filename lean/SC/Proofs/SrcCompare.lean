import SC.Proofs.SrcBase
import SC.Gen.Src.str_Compare
import SC.Gen.Src.str_clamp
/-!
`strcase.Compare` on the regenerated program text: the byte loop (`for i := 0; i < len(s) && i < len(t); i++`) with its three exits
(`clamp(len(s)-len(t))`, the `_lower` comparison, the jump to the rune loop), by a loop invariant over interpreter frames.
and the rune loop (`range` iterator over `s`, `DecodeRuneInString` / the `_lower` shortcut on `t`, `tables.CaseFold`, `clamp`), by a second
invariant: the whole function, for all byte strings.
-/
namespace GoSsa.Str
open GoSsa Gen.Src Utf8

section
-- the program the function lives in: any program whose `clamp` is the regenerated one
variable (p : Prog) (hfc : p.find? (fun fn => fn.name == "clamp") = some str_clamp)

theorem clamp_run (n : Int) (h : Heap) (fuel : Nat) (hf : 6 ≤ fuel) :
    run p false fuel (Frame.entry str_clamp [.int n]) h = .ok [.int (Utf8.clamp n)] h := by
  obtain ⟨m, rfl⟩ : ∃ m, fuel = m + 6 := ⟨fuel - 6, by omega⟩
  rw [Frame.entry]
  by_cases h1 : n < 0
  · src_run [str_clamp, str_clamp_b0, str_clamp_b1, str_clamp_b2, str_clamp_b3, str_clamp_b4, Utf8.clamp, h1]
  · by_cases h2 : 0 < n <;>
      src_run [str_clamp, str_clamp_b0, str_clamp_b1, str_clamp_b2, str_clamp_b3, str_clamp_b4, Utf8.clamp, h1, h2]

/-- the load `_lower[b]` of the source is the model's `lower b` -/
theorem lowerLoad (b : UInt8) : Gen.Consts.strLower[b.toNat]?.getD 0 = (lower b).toNat := by
  rw [Utf8.strLower_eq]
  have hb := b.toNat_lt
  simp [List.getElem?_map, List.getElem?_range hb, Utf8.ofNat_toNat_id]

theorem lowerLen : Gen.Consts.strLower.length = 256 := by decide +kernel

section
variable (fold : Nat → Nat)
theorem cmpRunes_nil (k : Nat) (t : Bytes) : A.cmpRunes fold k [] t = if t = [] then 0 else -1 := by
  cases t <;> cases k <;> simp [A.cmpRunes]
theorem cmpRunes_cons_nil (k : Nat) (s : Bytes) (hs : s ≠ []) : A.cmpRunes fold (k + 1) s [] = 1 := by
  cases s with
  | nil => exact absurd rfl hs
  | cons a s => simp [A.cmpRunes]
theorem cmpRunes_cons_ascii (k : Nat) (s : Bytes) (hs : s ≠ []) (b : UInt8) (t' : Bytes) (hb : b < 0x80) :
    A.cmpRunes fold (k + 1) s (b :: t') =
      if (decodeRune s).1 = (lower b).toNat ∨ fold (decodeRune s).1 = (lower b).toNat then A.cmpRunes fold k (s.drop (decodeRune s).2) t'
      else Utf8.clamp ((fold (decodeRune s).1 : Int) - ((lower b).toNat : Int)) := by
  cases s with
  | nil => exact absurd rfl hs
  | cons a s => simp [A.cmpRunes, hb]
theorem cmpRunes_cons_multi (k : Nat) (s : Bytes) (hs : s ≠ []) (b : UInt8) (t' : Bytes) (hb : ¬ b < 0x80) :
    A.cmpRunes fold (k + 1) s (b :: t') =
      if (decodeRune s).1 = fold (decodeRune (b :: t')).1 ∨ fold (decodeRune s).1 = fold (decodeRune (b :: t')).1 then
        A.cmpRunes fold k (s.drop (decodeRune s).2) ((b :: t').drop (decodeRune (b :: t')).2)
      else Utf8.clamp ((fold (decodeRune s).1 : Int) - (fold (decodeRune (b :: t')).1 : Int)) := by
  cases s with
  | nil => exact absurd rfl hs
  | cons a s => simp [A.cmpRunes, hb]
end

theorem bi_clamp_none (a h) : builtin false "clamp" a h = none := nb_clamp a h

macro "cmp_run" "[" ds:Lean.Parser.Tactic.simpLemma,* "]" : tactic =>
  `(tactic| src_run [str_Compare, str_Compare_b12, str_Compare_b13, str_Compare_b14, str_Compare_b15, str_Compare_b16, str_Compare_b17, str_Compare_b18,
      str_Compare_b19, str_Compare_b20, str_Compare_b21, str_Compare_b22, str_Compare_b23, run_call_unfold, bi_DecodeRuneInString, bi_CaseFold,
      bi_clamp_none, globalArr, lowerLoad, lowerLen, intOf, $ds,*])

include hfc in
set_option maxHeartbeats 4000000 in
theorem cmp_runes (sb : Bytes) (h : Heap) (hlb : sb.length < 4611686018427387904) :
    ∀ (k pos : Nat) (tb : Bytes) (rt ot : Nat) (env : Array (List Val)), sb.length - pos ≤ k → pos ≤ sb.length →
      tb.length < 4611686018427387904 → env.size = 61 →
      env.getD 18 [] = [.iter sb pos] → env.getD 31 [] = [.str tb rt ot] →
      ∀ fuel, 40 * k + 40 ≤ fuel →
      run p false fuel ⟨str_Compare, env, 12, [.next 32 (.r 18), .extract 33 (.r 32) 0], .cond (.r 33) 13 14⟩ h
        = .ok [.int (A.cmpRunes Fold.caseFold k (sb.drop pos) tb)] h := by
  intro k
  induction k with
  | zero =>
    intro pos tb rt ot env hk hpos htl hsz h18 h31 fuel hf
    simp [hsz] at h18 h31
    have hpe : pos = sb.length := by omega
    subst hpe
    rw [List.drop_length, cmpRunes_nil]
    obtain ⟨m, rfl⟩ : ∃ m, fuel = m + 20 := ⟨fuel - 20, by omega⟩
    cases tb with
    | nil => cmp_run [hfc, clamp_run p, hsz, h18, h31]
    | cons b t' =>
      have hl : ¬ ((t'.length : Int) + 1 = 0) := by omega
      cmp_run [hfc, clamp_run p, hsz, h18, h31, hl]
  | succ k ih =>
    intro pos tb rt ot env hk hpos htl hsz h18 h31 fuel hf
    simp [hsz] at h18 h31
    simp only [str_Compare, str_Compare_b12, str_Compare_b13, str_Compare_b14, str_Compare_b15, str_Compare_b16, str_Compare_b17, str_Compare_b18,
      str_Compare_b19, str_Compare_b20, str_Compare_b21, str_Compare_b22, str_Compare_b23] at ih
    by_cases hp : pos < sb.length
    · have hne : sb.drop pos ≠ [] := by
        intro e; have := congrArg List.length e; simp at this; omega
      have hnge : ¬ (sb.length ≤ pos) := by omega
      have hw1 : 1 ≤ (decodeRune (sb.drop pos)).2 := by
        rw [List.drop_eq_getElem_cons hp]; exact decodeRune_width_pos _ _
      have hw2 : (decodeRune (sb.drop pos)).2 ≤ sb.length - pos := by
        have := decodeRune_width_le (sb.drop pos); simpa using this
      have hr1 := decodeRune_rune_lt (sb.drop pos)
      cases tb with
      | nil =>
        rw [cmpRunes_cons_nil _ _ _ hne]
        obtain ⟨m, rfl⟩ : ∃ m, fuel = m + 20 := ⟨fuel - 20, by omega⟩
        cmp_run [hfc, clamp_run p, hsz, h18, h31, hp, hnge]
      | cons b t' =>
        have hk1 : b.toNat < 256 := b.toNat_lt
        have hk1' : (b.toNat : Int) < 256 := by omega
        have hl : ¬ ((t'.length : Int) + 1 = 0) := by omega
        have hl1 : (1 : Int) ≤ (t'.length : Int) + 1 := by omega
        have hdd : ∀ n, (sb.drop pos).drop n = sb.drop (pos + n) := fun n => by rw [List.drop_drop]
        by_cases hb : b < 0x80
        · have hb' : (b.toNat : Int) < 128 := by have : b.toNat < 128 := hb; omega
          have hlo : ((lower b).toNat : Int) < 256 := by have := (lower b).toNat_lt; omega
          have hwl : wrap .i32 ((lower b).toNat : Int) = ((lower b).toNat : Int) := wrap_i32_small _ (by omega) (by omega)
          rw [cmpRunes_cons_ascii _ _ _ hne _ _ hb, hdd]
          by_cases e1 : (decodeRune (sb.drop pos)).1 = (lower b).toNat
          · obtain ⟨m, rfl⟩ : ∃ m, fuel = m + 18 := ⟨fuel - 18, by omega⟩
            have e1' : ((decodeRune (sb.drop pos)).1 : Int) = ((lower b).toNat : Int) := by rw [e1]
            cmp_run [hfc, clamp_run p, hsz, h18, h31, hp, hnge, hl, hl1, hk1, hk1', hb', hwl, e1']
            rw [ih (pos + (decodeRune (sb.drop pos)).2) t' rt (ot + 1) _ (by omega) (by omega) (by simp at htl; omega) (by simp [hsz]) (by simp [hsz])
              (by simp [hsz]) _ (by omega)]
            simp [e1]
          · have e1' : ¬ (((decodeRune (sb.drop pos)).1 : Int) = ((lower b).toNat : Int)) := by omega
            have e1s : ¬ ((lower b).toNat = (decodeRune (sb.drop pos)).1) := fun x => e1 x.symm
            have hcb := caseFold_builtin _ hr1
            have hcl := caseFold_lt _ hr1
            rw [toU32_nat _ hr1] at hcb
            have htu := toU32_nat _ hr1
            generalize hcf : Fold.caseFold (decodeRune (sb.drop pos)).1 = cf at hcb hcl ⊢
            by_cases e2 : cf = (lower b).toNat
            · obtain ⟨m, rfl⟩ : ∃ m, fuel = m + 21 := ⟨fuel - 21, by omega⟩
              have e2' : ((cf : Nat) : Int) = ((lower b).toNat : Int) := by rw [e2]
              cmp_run [hfc, clamp_run p, hsz, h18, h31, hp, hnge, hl, hl1, hk1, hk1', hb', hwl, e1, e1s, e1', htu, hcf, hcb, e2, e2']
              rw [ih (pos + (decodeRune (sb.drop pos)).2) t' rt (ot + 1) _ (by omega) (by omega) (by simp at htl; omega) (by simp [hsz]) (by simp [hsz])
                (by simp [hsz]) _ (by omega)]
            · have e2' : ¬ (((cf : Nat) : Int) = ((lower b).toNat : Int)) := by omega
              obtain ⟨m, rfl⟩ : ∃ m, fuel = m + 40 := ⟨fuel - 40, by omega⟩
              have hw1' : wrap .i64 ((cf : Nat) : Int) = ((cf : Nat) : Int) := wrap_i64_small _ (by omega) (by omega)
              have hw2' : wrap .i64 ((lower b).toNat : Int) = ((lower b).toNat : Int) := wrap_i64_small _ (by omega) (by omega)
              have hw3' : wrap .i64 (((cf : Nat) : Int) - ((lower b).toNat : Int)) = ((cf : Nat) : Int) - ((lower b).toNat : Int) :=
                wrap_i64_small _ (by omega) (by omega)
              cmp_run [hfc, clamp_run p, hsz, h18, h31, hp, hnge, hl, hl1, hk1, hk1', hb', hwl, e1, e1s, e1', htu, hcf, hcb, e2, e2', hw1', hw2', hw3']
        · have hb' : ¬ ((b.toNat : Int) < 128) := by
            intro x; apply hb; show b.toNat < 128; omega
          have hr2 := decodeRune_rune_lt (b :: t')
          have hq1 : 1 ≤ (decodeRune (b :: t')).2 := decodeRune_width_pos _ _
          have hq2 : (decodeRune (b :: t')).2 ≤ t'.length + 1 := by have := decodeRune_width_le (b :: t'); simpa using this
          have hq2' : ((decodeRune (b :: t')).2 : Int) ≤ (t'.length : Int) + 1 := by omega
          rw [cmpRunes_cons_multi _ _ _ hne _ _ hb, hdd]
          have htk : List.take (t'.length + 1 - (decodeRune (b :: t')).2) (List.drop (decodeRune (b :: t')).2 (b :: t')) = List.drop (decodeRune (b :: t')).2 (b :: t') :=
            List.take_of_length_le (by simp)
          have htl2 : (List.drop (decodeRune (b :: t')).2 (b :: t')).length < 4611686018427387904 := by simp at htl ⊢; omega
          have htu1 := toU32_nat _ hr1
          have htu2 := toU32_nat _ hr2
          have hcb1 := caseFold_builtin _ hr1
          have hcl1 := caseFold_lt _ hr1
          have hcb2 := caseFold_builtin _ hr2
          have hcl2 := caseFold_lt _ hr2
          rw [htu1] at hcb1
          rw [htu2] at hcb2
          generalize hcf : Fold.caseFold (decodeRune (sb.drop pos)).1 = cf at hcb1 hcl1 ⊢
          generalize hcq : Fold.caseFold (decodeRune (b :: t')).1 = cq at hcb2 hcl2 ⊢
          by_cases e1 : (decodeRune (sb.drop pos)).1 = cq
          · obtain ⟨m, rfl⟩ : ∃ m, fuel = m + 18 := ⟨fuel - 18, by omega⟩
            have e1' : ((decodeRune (sb.drop pos)).1 : Int) = (cq : Int) := by rw [e1]
            cmp_run [hfc, clamp_run p, hsz, h18, h31, hp, hnge, hl, hl1, hk1, hk1', hb', htu1, htu2, hcf, hcq, hcb1, hcb2, e1, e1', hq2', htk]
            rw [ih (pos + (decodeRune (sb.drop pos)).2) _ rt (ot + (decodeRune (b :: t')).2) _ (by omega) (by omega) htl2 (by simp [hsz]) (by simp [hsz])
              (by simp [hsz]) _ (by omega)]
          · have e1' : ¬ (((decodeRune (sb.drop pos)).1 : Int) = (cq : Int)) := by omega
            have e1s : ¬ (cq = (decodeRune (sb.drop pos)).1) := fun x => e1 x.symm
            by_cases e2 : cf = cq
            · obtain ⟨m, rfl⟩ : ∃ m, fuel = m + 21 := ⟨fuel - 21, by omega⟩
              have e2' : ((cf : Nat) : Int) = (cq : Int) := by rw [e2]
              cmp_run [hfc, clamp_run p, hsz, h18, h31, hp, hnge, hl, hl1, hk1, hk1', hb', htu1, htu2, hcf, hcq, hcb1, hcb2, e1, e1s, e1', hq2', htk, e2, e2']
              rw [ih (pos + (decodeRune (sb.drop pos)).2) _ rt (ot + (decodeRune (b :: t')).2) _ (by omega) (by omega) htl2 (by simp [hsz]) (by simp [hsz])
                (by simp [hsz]) _ (by omega)]
            · have e2' : ¬ (((cf : Nat) : Int) = (cq : Int)) := by omega
              have e2s : ¬ (cq = cf) := fun x => e2 x.symm
              obtain ⟨m, rfl⟩ : ∃ m, fuel = m + 40 := ⟨fuel - 40, by omega⟩
              have hw1' : wrap .i64 ((cf : Nat) : Int) = ((cf : Nat) : Int) := wrap_i64_small _ (by omega) (by omega)
              have hw2' : wrap .i64 ((cq : Nat) : Int) = ((cq : Nat) : Int) := wrap_i64_small _ (by omega) (by omega)
              have hw3' : wrap .i64 (((cf : Nat) : Int) - ((cq : Nat) : Int)) = ((cf : Nat) : Int) - ((cq : Nat) : Int) :=
                wrap_i64_small _ (by omega) (by omega)
              cmp_run [hfc, clamp_run p, hsz, h18, h31, hp, hnge, hl, hl1, hk1, hk1', hb', htu1, htu2, hcf, hcq, hcb1, hcb2, e1, e1s, e1', hq2', htk, e2, e2s, e2',
                hw1', hw2', hw3']
    · have hpe : pos = sb.length := by omega
      subst hpe
      rw [List.drop_length, cmpRunes_nil]
      obtain ⟨m, rfl⟩ : ∃ m, fuel = m + 20 := ⟨fuel - 20, by omega⟩
      cases tb with
      | nil => cmp_run [hfc, clamp_run p, hsz, h18, h31]
      | cons b t' =>
        have hl : ¬ ((t'.length : Int) + 1 = 0) := by omega
        cmp_run [hfc, clamp_run p, hsz, h18, h31, hl]

macro "cmpl_run" "[" ds:Lean.Parser.Tactic.simpLemma,* "]" : tactic =>
  `(tactic| src_run [str_Compare, str_Compare_b0, str_Compare_b1, str_Compare_b2, str_Compare_b3, str_Compare_b4, str_Compare_b5, str_Compare_b6,
      str_Compare_b7, str_Compare_b8, str_Compare_b9, str_Compare_b10, str_Compare_b11, str_Compare_b12, str_Compare_b13, str_Compare_b14,
      str_Compare_b15, str_Compare_b16, str_Compare_b17, str_Compare_b18, str_Compare_b19, str_Compare_b20, str_Compare_b21, str_Compare_b22,
      str_Compare_b23, $ds,*])

include hfc in
set_option maxHeartbeats 4000000 in
theorem cmp_loop (s t : Bytes) (r0 o0 r1 o1 : Nat) (h : Heap) (hls : s.length < 4611686018427387904) (hlt : t.length < 4611686018427387904) :
    ∀ (d i : Nat) (env : Array (List Val)), s.length - i = d → i ≤ s.length → i ≤ t.length → env.size = 61 →
      (env.getD 0 [] = [.str s r0 o0]) → (env.getD 1 [] = [.str t r1 o1]) → (env.getD 11 [] = [.int i]) →
      ∀ fuel, 30 * d + 40 * s.length + 120 ≤ fuel →
        run p false fuel ⟨str_Compare, env, 3, [.len 12 (.r 0), .bin 13 .lt .i64 (.r 11) (.r 12)], .cond (.r 13) 4 2⟩ h
        = .ok [.int (A.cmpAscii Fold.caseFold (s.drop i) (t.drop i))] h := by
  intro d
  induction d with
  | zero =>
    intro i env hd hi hit hsz h0 h1 h11 fuel hf
    simp [hsz] at h0 h1 h11
    have hi' : i = s.length := by omega
    subst hi'
    obtain ⟨m, rfl⟩ : ∃ m, fuel = m + 40 := ⟨fuel - 40, by omega⟩
    have hw : wrap .i64 ((s.length : Int) - (t.length : Int)) = (s.length : Int) - (t.length : Int) := wrap_i64_small _ (by omega) (by omega)
    have hA : A.cmpAscii Fold.caseFold [] (t.drop s.length) = Utf8.clamp ((s.length : Int) - (t.length : Int)) := by
      cases hdt : t.drop s.length with
      | nil =>
        have : t.length ≤ s.length := by
          have := congrArg List.length hdt; simp at this; omega
        simp [A.cmpAscii]; congr 1; omega
      | cons b t' =>
        have : (t.drop s.length).length = t'.length + 1 := by rw [hdt]; rfl
        simp at this
        simp [A.cmpAscii]; congr 1; omega
    src_run [str_Compare, str_Compare_b2, hsz, h0, h1, h11, hw, run_call_fn (hb := nb_clamp) (hf := hfc), clamp_run p, hA]
  | succ d ih =>
    intro i env hd hi hit hsz h0 h1 h11 fuel hf
    simp [hsz] at h0 h1 h11
    have hlt1 : i < s.length := by omega
    have hlt1' : (i : Int) < s.length := by omega
    have hds : s.drop i = s[i] :: s.drop (i + 1) := List.drop_eq_getElem_cons hlt1
    simp only [str_Compare, str_Compare_b0, str_Compare_b1, str_Compare_b2, str_Compare_b3, str_Compare_b4, str_Compare_b5, str_Compare_b6,
      str_Compare_b7, str_Compare_b8, str_Compare_b9, str_Compare_b10, str_Compare_b11, str_Compare_b12, str_Compare_b13, str_Compare_b14,
      str_Compare_b15, str_Compare_b16, str_Compare_b17, str_Compare_b18, str_Compare_b19, str_Compare_b20, str_Compare_b21, str_Compare_b22,
      str_Compare_b23] at ih
    by_cases hit2 : i < t.length
    · have hit2' : (i : Int) < t.length := by omega
      have hdt : t.drop i = t[i] :: t.drop (i + 1) := List.drop_eq_getElem_cons hit2
      have hw : wrap .i64 ((i : Int) + 1) = (i : Int) + 1 := wrap_i64_small _ (by omega) (by omega)
      by_cases hna : (s[i] ||| t[i]) &&& 0x80 = 0
      · have hasc : wrap .u8 ((toU .u8 (wrap .u8 ((toU .u8 (s[i].toNat : Int) ||| toU .u8 (t[i].toNat : Int) : Nat) : Int)) &&& toU .u8 128 : Nat) : Int) = 0 ∧
            (s[i] ||| t[i]) &&& 0x80 = 0 := ⟨(orand_bridge _ _).mpr hna, hna⟩
        rw [hds, hdt]
        simp only [A.cmpAscii, hasc.2, ne_eq, not_true_eq_false, if_false]
        by_cases hab : s[i] = t[i]
        · obtain ⟨m, rfl⟩ : ∃ m, fuel = m + 16 := ⟨fuel - 16, by omega⟩
          have hab' := (toNat_int_inj s[i] t[i]).mpr hab
          have hz := hasc.1
          rw [hab] at hz
          simp only [Nat.or_self] at hz
          cmpl_run [hsz, h0, h1, h11, hlt1, hlt1', hit2, hit2', hw, hz, hab']
          rw [ih (i + 1) _ (by omega) (by omega) (by omega) (by simp [hsz]) (by simp [hsz, h0]) (by simp [hsz, h1]) (by simp [hsz, hw]) _ (by omega)]
          simp [hab]
        · have hab' : ¬ ((s[i].toNat : Int) = t[i].toNat) := fun e => hab ((toNat_int_inj _ _).mp e)
          by_cases hlo : lower s[i] = lower t[i]
          · obtain ⟨m, rfl⟩ : ∃ m, fuel = m + 22 := ⟨fuel - 22, by omega⟩
            have hlo' := (toNat_int_inj (lower s[i]) (lower t[i])).mpr hlo
            have hk1 : s[i].toNat < 256 := s[i].toNat_lt
            have hk2 : t[i].toNat < 256 := t[i].toNat_lt
            have hk1' : (s[i].toNat : Int) < 256 := by omega
            have hk2' : (t[i].toNat : Int) < 256 := by omega
            cmpl_run [hsz, h0, h1, h11, hlt1, hlt1', hit2, hit2', hw, hasc.1, hab, hab', globalArr, lowerLoad, lowerLen, hk1, hk2, hk1', hk2', hlo']
            rw [ih (i + 1) _ (by omega) (by omega) (by omega) (by simp [hsz]) (by simp [hsz, h0]) (by simp [hsz, h1]) (by simp [hsz, hw]) _ (by omega)]
            simp [hab, hlo]
          · have hlo' : ¬ (((lower s[i]).toNat : Int) = (lower t[i]).toNat) := fun e => hlo ((toNat_int_inj _ _).mp e)
            have hk1 : s[i].toNat < 256 := s[i].toNat_lt
            have hk2 : t[i].toNat < 256 := t[i].toNat_lt
            have hk1' : (s[i].toNat : Int) < 256 := by omega
            have hk2' : (t[i].toNat : Int) < 256 := by omega
            obtain ⟨m, rfl⟩ : ∃ m, fuel = m + 30 := ⟨fuel - 30, by omega⟩
            by_cases hl : lower s[i] < lower t[i]
            · have hl' := (toNat_int_lt _ _).mpr hl
              cmpl_run [hsz, h0, h1, h11, hlt1, hlt1', hit2, hit2', hw, hasc.1, hab, hab', globalArr, lowerLoad, lowerLen, hk1, hk2, hk1', hk2', hlo, hlo', hl, hl']
            · have hl' : ¬ (((lower s[i]).toNat : Int) < (lower t[i]).toNat) := fun e => hl ((toNat_int_lt _ _).mp e)
              cmpl_run [hsz, h0, h1, h11, hlt1, hlt1', hit2, hit2', hw, hasc.1, hab, hab', globalArr, lowerLoad, lowerLen, hk1, hk2, hk1', hk2', hlo, hlo', hl, hl']
      · -- a non-ASCII byte: the rune loop on `s[i:]`, `t[i:]`
        have hg : ¬ (wrap .u8 ((toU .u8 (wrap .u8 ((toU .u8 (s[i].toNat : Int) ||| toU .u8 (t[i].toNat : Int) : Nat) : Int)) &&& toU .u8 128 : Nat) : Int) = 0) :=
          fun x => hna ((orand_bridge _ _).mp x)
        have hA : A.cmpAscii Fold.caseFold (s.drop i) (t.drop i) = A.cmpRunes Fold.caseFold (s.drop i).length (s.drop i) (t.drop i) := by
          rw [hds, hdt]
          simp only [A.cmpAscii, ne_eq, hna, not_false_eq_true, if_true, List.length_cons]
        rw [hA]
        obtain ⟨m, rfl⟩ : ∃ m, fuel = m + 16 := ⟨fuel - 16, by omega⟩
        have hr := cmp_runes p hfc (s.drop i) h (by simp; omega) (s.drop i).length 0 (t.drop i) r1 (o1 + i)
        simp only [str_Compare, str_Compare_b0, str_Compare_b1, str_Compare_b2, str_Compare_b3, str_Compare_b4, str_Compare_b5, str_Compare_b6,
          str_Compare_b7, str_Compare_b8, str_Compare_b9, str_Compare_b10, str_Compare_b11, str_Compare_b12, str_Compare_b13, str_Compare_b14,
          str_Compare_b15, str_Compare_b16, str_Compare_b17, str_Compare_b18, str_Compare_b19, str_Compare_b20, str_Compare_b21, str_Compare_b22,
          str_Compare_b23, List.drop_zero] at hr
        have htk1 : List.take (s.length - i) (List.drop i s) = List.drop i s := List.take_of_length_le (by simp)
        have htk2 : List.take (t.length - i) (List.drop i t) = List.drop i t := List.take_of_length_le (by simp)
        have hi0 : (0 : Int) ≤ i := by omega
        have hile : (i : Int) ≤ s.length := by omega
        have hile2 : (i : Int) ≤ t.length := by omega
        cmpl_run [hsz, h0, h1, h11, hlt1, hlt1', hit2, hit2', hg, intOf, htk1, htk2, hi0, hile, hile2]
        rw [hr _ (by simp) (by simp) (by simp; omega) (by simp [hsz]) (by simp [hsz]) (by simp [hsz]) _ (by simp; omega)]
        simp
    · -- `t` is exhausted first
      have hit3 : t.length = i := by omega
      have hit2' : ¬ ((i : Int) < t.length) := by omega
      have hdt : t.drop i = [] := List.drop_eq_nil_of_le (by omega)
      have hw : wrap .i64 ((s.length : Int) - (t.length : Int)) = (s.length : Int) - (t.length : Int) := wrap_i64_small _ (by omega) (by omega)
      obtain ⟨m, rfl⟩ : ∃ m, fuel = m + 30 := ⟨fuel - 30, by omega⟩
      rw [hdt]
      have hA : A.cmpAscii Fold.caseFold (s.drop i) [] = Utf8.clamp ((s.length : Int) - (t.length : Int)) := by
        rw [hds]; simp [A.cmpAscii]; congr 1; omega
      src_run [str_Compare, str_Compare_b2, str_Compare_b4, hsz, h0, h1, h11, hlt1, hlt1', hit2, hit2', hw, run_call_fn (hb := nb_clamp) (hf := hfc), clamp_run p, hA]

include hfc in
/-- `strcase.Compare`: the regenerated program text returns the algorithm model's value, for all byte strings shorter than 2^62 bytes -/
theorem Compare (s t : Bytes) (r0 o0 r1 o1 : Nat) (h : Heap) (hls : s.length < 4611686018427387904) (hlt : t.length < 4611686018427387904) :
    Ret p false str_Compare [.str s r0 o0, .str t r1 o1] h [.int (A.Compare (cfg false) s t)] h := by
  refine ⟨70 * s.length + 121, fun fuel hf => ?_⟩
  obtain ⟨m, rfl⟩ : ∃ m, fuel = (70 * s.length + 120 + m) + 1 := ⟨fuel - (70 * s.length + 121), by omega⟩
  rw [Frame.entry]
  have hl := cmp_loop p hfc s t r0 o0 r1 o1 h hls hlt s.length 0
  simp only [str_Compare, str_Compare_b0, str_Compare_b1, str_Compare_b2, str_Compare_b3, str_Compare_b4, str_Compare_b5, str_Compare_b6,
      str_Compare_b7, str_Compare_b8, str_Compare_b9, str_Compare_b10, str_Compare_b11, str_Compare_b12, str_Compare_b13, str_Compare_b14,
      str_Compare_b15, str_Compare_b16, str_Compare_b17, str_Compare_b18, str_Compare_b19, str_Compare_b20, str_Compare_b21, str_Compare_b22,
      str_Compare_b23] at hl
  cmpl_run []
  rw [hl _ (by omega) (by omega) (by omega) (by simp) (by simp) (by simp) (by simp) _ (by omega)]
  rfl

include hfc in
/-- corollary kept under its old name: ASCII-only arguments -/
theorem Compare_ascii (s t : Bytes) (r0 o0 r1 o1 : Nat) (h : Heap) (hls : s.length < 4611686018427387904) (hlt : t.length < 4611686018427387904)
    (_hs : ∀ b ∈ s, b < 0x80) (_ht : ∀ b ∈ t, b < 0x80) :
    Ret p false str_Compare [.str s r0 o0, .str t r1 o1] h [.int (A.Compare (cfg false) s t)] h := Compare p hfc s t r0 o0 r1 o1 h hls hlt

end
end GoSsa.Str
