import SC.Proofs.SkipLoop
namespace Utf8
open A

section
variable (fold : Nat → Nat)

def wsum (l : List (Nat × Nat)) : Nat := (l.map (·.2)).sum

theorem wsum_dec (x : Bytes) : wsum (dec x) = x.length := by
  have := offAt_length x
  simp only [offAt, List.take_length] at this
  exact this

/-- segment lists: fold-prefix + pairwise width ratio ⇒ total width ratio -/
theorem wsum_le_of_prefix (P X : List (Nat × Nat))
    (hpre : P.map (fun p => fold p.1) <+: X.map (fun p => fold p.1))
    (hW : ∀ p ∈ P, ∀ q ∈ X, fold p.1 = fold q.1 → p.2 ≤ 3 * q.2) :
    wsum P ≤ 3 * wsum X := by
  induction P generalizing X with
  | nil => simp [wsum]
  | cons p P ih =>
    cases X with
    | nil => simp at hpre
    | cons q X =>
      simp only [List.map_cons, List.cons_prefix_cons] at hpre
      have h1 := hW p (List.mem_cons_self ..) q (List.mem_cons_self ..) hpre.1
      have h2 := ih X hpre.2 (fun p' hp' q' hq' => hW p' (List.mem_cons_of_mem _ hp') q' (List.mem_cons_of_mem _ hq'))
      simp only [wsum, List.map_cons, List.sum_cons] at h1 h2 ⊢
      omega

/-- pairwise width hypothesis between the needle and the haystack (the width lemma W, from the tables) -/
def WidthRel (s sub : Bytes) : Prop :=
  ∀ p ∈ dec sub, ∀ q ∈ dec s, fold p.1 = fold q.1 → p.2 ≤ 3 * q.2

theorem mem_dec_drop (s : Bytes) (i : Nat) (hi : IsBoundary s i) : ∀ q ∈ dec (s.drop i), q ∈ dec s := by
  obtain ⟨k, _, hk⟩ := hi
  subst hk
  rw [dec_drop_offAt]
  intro q hq; exact List.mem_of_mem_drop hq

/-- B: with `t = min(len s, len s − n/3 + 2)` a match at boundary `i` has its second rune below `t` -/
theorem window_bound (s sub : Bytes) (f0 f1 : Nat) (fn : List Nat)
    (hsub : fdec fold sub = f0 :: f1 :: fn) (hW : WidthRel fold s sub) (hn : sub.length ≤ s.length)
    (i : Nat) (hi : IsBoundary s i) (hm : Match fold (s.drop i) sub) :
    i + (decodeRune (s.drop i)).2 < min s.length (s.length - sub.length / 3 + 2) := by
  have hmi := (match_iff fold (s.drop i) sub f0 f1 fn hsub).mp hm
  obtain ⟨hx0, _, hx1, _, _⟩ := hmi
  -- split both strings after their first rune
  cases hx : s.drop i with
  | nil => exact absurd hx hx0
  | cons c xr =>
    cases hs : sub with
    | nil => rw [hs, fdec_nil'] at hsub; cases hsub
    | cons d sr =>
      have hm' : fdec fold sub <+: fdec fold (s.drop i) := hm
      rw [hx, hs, fdec_cons', fdec_cons'] at hm'
      have htail := (List.cons_prefix_cons.mp hm').2
      -- widths of the tails
      have hWt : ∀ p ∈ dec ((d :: sr).drop (decodeRune (d :: sr)).2), ∀ q ∈ dec ((c :: xr).drop (decodeRune (c :: xr)).2),
          fold p.1 = fold q.1 → p.2 ≤ 3 * q.2 := by
        intro p hp q hq hpq
        apply hW p _ q _ hpq
        · rw [hs, dec_cons]; exact List.mem_cons_of_mem _ hp
        · apply mem_dec_drop s i hi
          rw [hx, dec_cons]; exact List.mem_cons_of_mem _ hq
      have hlen := wsum_le_of_prefix fold _ _ (by simpa [fdec] using htail) hWt
      rw [wsum_dec, wsum_dec] at hlen
      simp only [List.length_drop] at hlen
      have h4 := decodeRune_width_le4 (d :: sr)
      have hwd := decodeRune_width_le (d :: sr)
      have hwc := decodeRune_width_le (c :: xr)
      have hxl : (c :: xr).length = s.length - i := by rw [← hx]; simp
      have hsl : (d :: sr).length = sub.length := by rw [hs]
      have hile := isBoundary_le s i hi
      -- the second rune of the match exists
      rw [hx] at hx1
      have hx1len : 0 < ((c :: xr).drop (decodeRune (c :: xr)).2).length := List.length_pos_iff.mpr hx1
      simp only [List.length_drop] at hx1len
      rw [hs] at hn
      omega
end
end Utf8
