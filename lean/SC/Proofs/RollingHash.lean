example (a b c : UInt32) : (a + b) * c = c * a + c * b := by grind
example (h p new old pw rest : UInt32) (hh : h = old * pw + rest) (hp : pw * p = pw') : 
    h * p + new - pw' * old = rest * p + new := by grind
def hashList (P : UInt32) : List UInt32 → UInt32 → UInt32
  | [], acc => acc
  | r :: rs, acc => hashList P rs (acc * P + r)
theorem hashList_append (P : UInt32) (xs ys : List UInt32) (acc : UInt32) :
    hashList P (xs ++ ys) acc = hashList P ys (hashList P xs acc) := by
  induction xs generalizing acc with
  | nil => rfl
  | cons x xs ih => simp [hashList, ih]
def powP (P : UInt32) : Nat → UInt32
  | 0 => 1
  | n+1 => powP P n * P
/-- the effect of the accumulator: hash with acc = hash with 0 + acc * P^len -/
theorem hashList_acc (P : UInt32) (xs : List UInt32) (acc : UInt32) :
    hashList P xs acc = hashList P xs 0 + acc * powP P xs.length := by
  induction xs generalizing acc with
  | nil => simp [hashList, powP]
  | cons x xs ih =>
    simp only [hashList, List.length_cons, powP]
    rw [ih (acc * P + x), ih (0 * P + x)]
    grind
/-- rolling step: drop the first rune, append a new one -/
theorem roll (P : UInt32) (old new : UInt32) (mid : List UInt32) :
    hashList P (mid ++ [new]) 0 = hashList P (old :: mid) 0 * P + new - powP P (mid.length + 1) * old := by
  rw [hashList_append]
  simp only [hashList]
  rw [hashList_acc P mid (0 * P + old)]
  simp only [powP]
  grind
#print axioms roll
