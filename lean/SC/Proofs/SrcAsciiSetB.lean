import SC.Proofs.SrcNamesB
/-!
`(*asciiSet).contains` on the regenerated program text: a read through a pointer into a local array (heap cell), byte division / remainder,
a 32-bit shift and mask.
-/
open GoSsa Gen.Src Utf8

namespace GoSsa.Byt

/-- `(*asciiSet).contains(c)`: bit `c % 32` of word `c / 32` of the eight-word set the receiver points to -/
theorem asciiSet_contains (cell : Nat) (h : Heap) (vs : List Int) (hv : vs.length = 8) (hc : h.getD cell .nil = .arr vs) (c : UInt8) :
    Ret P true byt_asciiSet_contains [.ptr cell, .int c.toNat] h
      [.bool (decide (wrap .u32 ((toU .u32 (vs.getD (c.toNat / 32) 0) &&& toU .u32 (wrap .u32 ((toU .u32 1 <<< (c.toNat % 32) : Nat) : Int)) : Nat) : Int) ≠ 0))] h := by
  refine ⟨12, fun fuel hf => ?_⟩
  obtain ⟨m, rfl⟩ : ∃ m, fuel = m + 12 := ⟨fuel - 12, by omega⟩
  rw [Frame.entry]
  have hlt := c.toNat_lt
  have hq : (c.toNat : Int) / 32 < 8 := by omega
  have hq0 : (0 : Int) ≤ (c.toNat : Int) / 32 := by omega
  have hr0 : (0 : Int) ≤ (c.toNat : Int) % 32 := by omega
  have hr1 : (c.toNat : Int) % 32 < 64 := by omega
  have e8 : ((2 ^ 8 : Nat) : Int) = 256 := by decide
  have hw1 : wrap .u8 ((c.toNat : Int) / 32) = ((c.toNat / 32 : Nat) : Int) := by
    unfold wrap toU bits signed
    simp only [Bool.false_and, Bool.false_eq_true, if_false, e8]
    omega
  have hw2 : wrap .u8 ((c.toNat : Int) % 32) = ((c.toNat % 32 : Nat) : Int) := by
    unfold wrap toU bits signed
    simp only [Bool.false_and, Bool.false_eq_true, if_false, e8]
    omega
  have hq' : c.toNat / 32 < 8 := by omega
  have hmod : (c.toNat : Int).tmod 32 = ((c.toNat % 32 : Nat) : Int) := by
    rw [Int.tmod_eq_emod_of_nonneg (by omega)]; omega
  have hw3 : wrap .u8 ((c.toNat % 32 : Nat) : Int) = ((c.toNat % 32 : Nat) : Int) := by
    unfold wrap toU bits signed
    simp only [Bool.false_and, Bool.false_eq_true, if_false, e8]
    omega
  have hr4 : ¬ (((c.toNat % 32 : Nat) : Int) < 0) := by omega
  have hr5 : ¬ ((64 : Int) ≤ ((c.toNat % 32 : Nat) : Int)) := by omega
  have htn : ((c.toNat : Int) / 32).toNat = c.toNat / 32 := by omega
  have htm : ((c.toNat : Int) % 32).toNat = c.toNat % 32 := by omega
  have hr2 : ¬ ((c.toNat : Int) % 32 < 0) := by omega
  have hr3 : ¬ (64 ≤ (c.toNat : Int) % 32) := by omega
  src_run [byt_asciiSet_contains, byt_asciiSet_contains_b0, hc, hv, hw1, hw2, hq', hq, hq0, htn, htm, hr2, hr3, hmod, hw3, hr4, hr5]

end GoSsa.Byt
