import SC.Proofs.AsmLemmas
import SC.Gen.AsmFacts
/-!
The regenerated kernel bodies (`Gen.Asm.body_*`: every label of the body, instruction by instruction), run on the
instruction-level model from label `small`: the `len < 16` paths compute the block models `Kern.small` /
`Kern.cntSmall` — result and loads — for every memory, base address, length < 16 and needle byte, from any
machine state that has `SI` = data, `BX` = length and the lanes the prologue sets.
(This file is instantiated from one template per kind of body: `tools/…` is not involved; see the git history.)
-/
namespace Asm
open Kern

theorem and_self_eq_zero (n : Nat) : ((n &&& n) == 0) = (n == 0) := by rw [Nat.and_self]
theorem dispN16 : dispN 16 = 16 := by decide
theorem dispN0 : dispN 0 = 0 := by decide
theorem dispNm16 : dispN (-16) = W64 - 16 := by decide

/-- symbolic execution of a regenerated program -/
macro "asm_exec" "[" ts:Lean.Parser.Tactic.simpLemma,* "]" : tactic =>
  `(tactic| simp only [block, String.reduceBEq, List.map, List.flatten, List.append_eq, List.append_nil, List.cons_append,
      List.nil_append, List.append_assoc, run, step, setR, setX, addr, and_self_eq_zero, reduceCtorEq, if_false, if_true, ite_self,
      Bool.false_eq_true, Nat.mod_mod, decide_true, decide_false, Option.map_none, Option.map_some, $ts,*])

/-- a concrete run of the interpreter (end-of-page path, match in lane 5) -/
example : (run Gen.Asm.body_indexbytebody 40 (block Gen.Asm.body_indexbytebody "small")
    { r := fun q => match q with | .BX => 9 | .SI => 4085 | _ => 0, x := fun q _ => match q with | .X0 => 0x41 | _ => 0, y := fun _ _ => 0,
      zf := false, cf := false, lt := false, avx2 := false, popcnt := true, args := fun _ => 0, tail := none, mem := fun i => if i = 4090 then 0x41 else 0, loads := [], out := none }).out
    = some 5 := by decide +kernel

set_option maxRecDepth 8000 in
set_option maxHeartbeats 8000000 in
/-- **`indexbytebody`, `len < 16`** -/
theorem small_indexbytebody_correct (mem : Nat → UInt8) (base len : Nat) (c : UInt8) (s : St) (f : Nat)
    (h16 : len < 16) (hb : base + 32 < 2 ^ 64)
    (hSI : s.r .SI = base) (hBX : s.r .BX = len) (hX0 : ∀ j, s.x .X0 j = c) (hX2 : ∀ _j : Nat, True)
    (hmem : s.mem = mem) (hout : s.out = none) (hl : s.loads = []) (hf : 24 ≤ f) :
    (run Gen.Asm.body_indexbytebody f (block Gen.Asm.body_indexbytebody "small") s).out = some (small (fun b => b == c) mem base len).1 ∧
    (run Gen.Asm.body_indexbytebody f (block Gen.Asm.body_indexbytebody "small") s).loads = (small (fun b => b == c) mem base len).2 := by
  have hlw : len % W32 = len := Nat.mod_eq_of_lt (by unfold W32; omega)
  have a16 : (base + 0 + dispN 16) % W64 = base + 16 := by rw [dispN16]; unfold W64; omega
  have a0 : (base + 0 + dispN 0) % W64 = base := by rw [dispN0]; unfold W64; omega
  obtain ⟨g, rfl⟩ : ∃ g, f = g + 24 := ⟨f - 24, by omega⟩
  unfold small
  by_cases h0 : len = 0
  · subst h0
    rw [if_pos rfl]
    constructor <;> asm_exec [Gen.Asm.body_indexbytebody, hSI, hBX, hout, hl] <;> rfl
  · rw [if_neg h0]
    have h0' : (len == 0) = false := beq_eq_false_iff_ne.mpr h0
    cases hp : ((4080 &&& (base + 16)) % 65536 == 0) with
    | false =>
      have hpt : ¬ ((base + 16) % 4096 / 16 = 0) := by
        have := pageTest (base + 16); rw [hp] at this
        intro h; rw [beq_iff_eq.mpr h] at this; cases this
      rw [if_neg hpt]
      have hfb := bsf_mask (fun j => if mem (base + j) = c then (255 : UInt8) else 0) (fun b => b == c) mem base
        (fun j => by by_cases h : mem (base + j) = c <;> simp [h])
      cases hb2 : blk (fun b => b == c) mem base 0 16 with
      | none =>
        rw [hb2] at hfb
        constructor <;> asm_exec [Gen.Asm.body_indexbytebody, hSI, hBX, hX0, hX2, hmem, hout, hl, h0', a16, a0, hp, hfb]
      | some k =>
        rw [hb2] at hfb
        obtain ⟨_, hk16, _, _⟩ := blk_some hb2
        have hkw : k % W32 = k := Nat.mod_eq_of_lt (by unfold W32; omega)
        by_cases hkl : k < len
        · have hk63 : k < 2 ^ 63 := by omega
          constructor <;> asm_exec [Gen.Asm.body_indexbytebody, hSI, hBX, hX0, hX2, hmem, hout, hl, h0', a16, a0, hp, hfb, hkw, hlw, hkl, hk63]
        · constructor <;> asm_exec [Gen.Asm.body_indexbytebody, hSI, hBX, hX0, hX2, hmem, hout, hl, h0', a16, a0, hp, hfb, hkw, hlw, hkl]
    | true =>
      have hpt : (base + 16) % 4096 / 16 = 0 := by
        have := pageTest (base + 16); rw [hp] at this
        exact beq_iff_eq.mp this.symm
      rw [if_pos hpt]
      have am : (base + len + dispN (-16)) % W64 = base + len - 16 := by rw [dispNm16]; unfold W64; omega
      have hfb := bsf_shifted (fun j => if mem (base + len - 16 + j) = c then (255 : UInt8) else 0) (fun b => b == c) mem
        (base + len - 16) len h16 (fun j => by by_cases h : mem (base + len - 16 + j) = c <;> simp [h])
      cases hb2 : blk (fun b => b == c) mem (base + len - 16) (16 - len) len with
      | none =>
        rw [hb2] at hfb
        constructor <;> asm_exec [Gen.Asm.body_indexbytebody, hSI, hBX, hX0, hX2, hmem, hout, hl, h0', a16, am, hp, hlw, hfb]
      | some k =>
        rw [hb2] at hfb
        obtain ⟨_, hk16, _, _⟩ := blk_some hb2
        have hk63 : k - (16 - len) < 2 ^ 63 := by omega
        constructor <;> asm_exec [Gen.Asm.body_indexbytebody, hSI, hBX, hX0, hX2, hmem, hout, hl, h0', a16, am, hp, hlw, hfb, hk63]

set_option maxRecDepth 8000 in
set_option maxHeartbeats 8000000 in
/-- **`indexbytebodyCase`, `len < 16`** -/
theorem small_indexbytebodyCase_correct (mem : Nat → UInt8) (base len : Nat) (c : UInt8) (s : St) (f : Nat)
    (h16 : len < 16) (hb : base + 32 < 2 ^ 64)
    (hSI : s.r .SI = base) (hBX : s.r .BX = len) (hX0 : ∀ j, s.x .X0 j = c) (hX2 : ∀ j, s.x .X2 j = 0x20)
    (hmem : s.mem = mem) (hout : s.out = none) (hl : s.loads = []) (hf : 24 ≤ f) :
    (run Gen.Asm.body_indexbytebodyCase f (block Gen.Asm.body_indexbytebodyCase "small") s).out = some (small (fun b => (b ||| 0x20) == c) mem base len).1 ∧
    (run Gen.Asm.body_indexbytebodyCase f (block Gen.Asm.body_indexbytebodyCase "small") s).loads = (small (fun b => (b ||| 0x20) == c) mem base len).2 := by
  have hlw : len % W32 = len := Nat.mod_eq_of_lt (by unfold W32; omega)
  have a16 : (base + 0 + dispN 16) % W64 = base + 16 := by rw [dispN16]; unfold W64; omega
  have a0 : (base + 0 + dispN 0) % W64 = base := by rw [dispN0]; unfold W64; omega
  obtain ⟨g, rfl⟩ : ∃ g, f = g + 24 := ⟨f - 24, by omega⟩
  unfold small
  by_cases h0 : len = 0
  · subst h0
    rw [if_pos rfl]
    constructor <;> asm_exec [Gen.Asm.body_indexbytebodyCase, hSI, hBX, hout, hl] <;> rfl
  · rw [if_neg h0]
    have h0' : (len == 0) = false := beq_eq_false_iff_ne.mpr h0
    cases hp : ((4080 &&& (base + 16)) % 65536 == 0) with
    | false =>
      have hpt : ¬ ((base + 16) % 4096 / 16 = 0) := by
        have := pageTest (base + 16); rw [hp] at this
        intro h; rw [beq_iff_eq.mpr h] at this; cases this
      rw [if_neg hpt]
      have hfb := bsf_mask (fun j => if mem (base + j) ||| 32 = c then (255 : UInt8) else 0) (fun b => (b ||| 0x20) == c) mem base
        (fun j => by by_cases h : mem (base + j) ||| 32 = c <;> simp [h])
      cases hb2 : blk (fun b => (b ||| 0x20) == c) mem base 0 16 with
      | none =>
        rw [hb2] at hfb
        constructor <;> asm_exec [Gen.Asm.body_indexbytebodyCase, hSI, hBX, hX0, hX2, hmem, hout, hl, h0', a16, a0, hp, hfb]
      | some k =>
        rw [hb2] at hfb
        obtain ⟨_, hk16, _, _⟩ := blk_some hb2
        have hkw : k % W32 = k := Nat.mod_eq_of_lt (by unfold W32; omega)
        by_cases hkl : k < len
        · have hk63 : k < 2 ^ 63 := by omega
          constructor <;> asm_exec [Gen.Asm.body_indexbytebodyCase, hSI, hBX, hX0, hX2, hmem, hout, hl, h0', a16, a0, hp, hfb, hkw, hlw, hkl, hk63]
        · constructor <;> asm_exec [Gen.Asm.body_indexbytebodyCase, hSI, hBX, hX0, hX2, hmem, hout, hl, h0', a16, a0, hp, hfb, hkw, hlw, hkl]
    | true =>
      have hpt : (base + 16) % 4096 / 16 = 0 := by
        have := pageTest (base + 16); rw [hp] at this
        exact beq_iff_eq.mp this.symm
      rw [if_pos hpt]
      have am : (base + len + dispN (-16)) % W64 = base + len - 16 := by rw [dispNm16]; unfold W64; omega
      have hfb := bsf_shifted (fun j => if mem (base + len - 16 + j) ||| 32 = c then (255 : UInt8) else 0) (fun b => (b ||| 0x20) == c) mem
        (base + len - 16) len h16 (fun j => by by_cases h : mem (base + len - 16 + j) ||| 32 = c <;> simp [h])
      cases hb2 : blk (fun b => (b ||| 0x20) == c) mem (base + len - 16) (16 - len) len with
      | none =>
        rw [hb2] at hfb
        constructor <;> asm_exec [Gen.Asm.body_indexbytebodyCase, hSI, hBX, hX0, hX2, hmem, hout, hl, h0', a16, am, hp, hlw, hfb]
      | some k =>
        rw [hb2] at hfb
        obtain ⟨_, hk16, _, _⟩ := blk_some hb2
        have hk63 : k - (16 - len) < 2 ^ 63 := by omega
        constructor <;> asm_exec [Gen.Asm.body_indexbytebodyCase, hSI, hBX, hX0, hX2, hmem, hout, hl, h0', a16, am, hp, hlw, hfb, hk63]

set_option maxRecDepth 8000 in
set_option maxHeartbeats 8000000 in
/-- **`indexByteBodyNonASCII`, `len < 16`** -/
theorem small_indexByteBodyNonASCII_correct (mem : Nat → UInt8) (base len : Nat) (c : UInt8) (s : St) (f : Nat)
    (h16 : len < 16) (hb : base + 32 < 2 ^ 64)
    (hSI : s.r .SI = base) (hBX : s.r .BX = len) (hX0 : ∀ _j : Nat, True) (hX2 : ∀ _j : Nat, True)
    (hmem : s.mem = mem) (hout : s.out = none) (hl : s.loads = []) (hf : 24 ≤ f) :
    (run Gen.Asm.body_indexByteBodyNonASCII f (block Gen.Asm.body_indexByteBodyNonASCII "small") s).out = some (small (fun b => decide (b ≥ 0x80)) mem base len).1 ∧
    (run Gen.Asm.body_indexByteBodyNonASCII f (block Gen.Asm.body_indexByteBodyNonASCII "small") s).loads = (small (fun b => decide (b ≥ 0x80)) mem base len).2 := by
  have hlw : len % W32 = len := Nat.mod_eq_of_lt (by unfold W32; omega)
  have a16 : (base + 0 + dispN 16) % W64 = base + 16 := by rw [dispN16]; unfold W64; omega
  have a0 : (base + 0 + dispN 0) % W64 = base := by rw [dispN0]; unfold W64; omega
  obtain ⟨g, rfl⟩ : ∃ g, f = g + 24 := ⟨f - 24, by omega⟩
  unfold small
  by_cases h0 : len = 0
  · subst h0
    rw [if_pos rfl]
    constructor <;> asm_exec [Gen.Asm.body_indexByteBodyNonASCII, hSI, hBX, hout, hl] <;> rfl
  · rw [if_neg h0]
    have h0' : (len == 0) = false := beq_eq_false_iff_ne.mpr h0
    cases hp : ((4080 &&& (base + 16)) % 65536 == 0) with
    | false =>
      have hpt : ¬ ((base + 16) % 4096 / 16 = 0) := by
        have := pageTest (base + 16); rw [hp] at this
        intro h; rw [beq_iff_eq.mpr h] at this; cases this
      rw [if_neg hpt]
      have hfb := bsf_mask (fun j => mem (base + j)) (fun b => decide (b ≥ 0x80)) mem base
        (fun j => rfl)
      cases hb2 : blk (fun b => decide (b ≥ 0x80)) mem base 0 16 with
      | none =>
        rw [hb2] at hfb
        constructor <;> asm_exec [Gen.Asm.body_indexByteBodyNonASCII, hSI, hBX, hX0, hX2, hmem, hout, hl, h0', a16, a0, hp, hfb]
      | some k =>
        rw [hb2] at hfb
        obtain ⟨_, hk16, _, _⟩ := blk_some hb2
        have hkw : k % W32 = k := Nat.mod_eq_of_lt (by unfold W32; omega)
        by_cases hkl : k < len
        · have hk63 : k < 2 ^ 63 := by omega
          constructor <;> asm_exec [Gen.Asm.body_indexByteBodyNonASCII, hSI, hBX, hX0, hX2, hmem, hout, hl, h0', a16, a0, hp, hfb, hkw, hlw, hkl, hk63]
        · constructor <;> asm_exec [Gen.Asm.body_indexByteBodyNonASCII, hSI, hBX, hX0, hX2, hmem, hout, hl, h0', a16, a0, hp, hfb, hkw, hlw, hkl]
    | true =>
      have hpt : (base + 16) % 4096 / 16 = 0 := by
        have := pageTest (base + 16); rw [hp] at this
        exact beq_iff_eq.mp this.symm
      rw [if_pos hpt]
      have am : (base + len + dispN (-16)) % W64 = base + len - 16 := by rw [dispNm16]; unfold W64; omega
      have hfb := bsf_shifted (fun j => mem (base + len - 16 + j)) (fun b => decide (b ≥ 0x80)) mem
        (base + len - 16) len h16 (fun j => rfl)
      cases hb2 : blk (fun b => decide (b ≥ 0x80)) mem (base + len - 16) (16 - len) len with
      | none =>
        rw [hb2] at hfb
        constructor <;> asm_exec [Gen.Asm.body_indexByteBodyNonASCII, hSI, hBX, hX0, hX2, hmem, hout, hl, h0', a16, am, hp, hlw, hfb]
      | some k =>
        rw [hb2] at hfb
        obtain ⟨_, hk16, _, _⟩ := blk_some hb2
        have hk63 : k - (16 - len) < 2 ^ 63 := by omega
        constructor <;> asm_exec [Gen.Asm.body_indexByteBodyNonASCII, hSI, hBX, hX0, hX2, hmem, hout, hl, h0', a16, am, hp, hlw, hfb, hk63]

set_option maxRecDepth 8000 in
set_option maxHeartbeats 8000000 in
/-- **`countbody`, `len < 16`** -/
theorem small_countbody_correct (mem : Nat → UInt8) (base len : Nat) (c : UInt8) (s : St) (f : Nat)
    (h16 : len < 16) (hb : base + 32 < 2 ^ 64)
    (hSI : s.r .SI = base) (hBX : s.r .BX = len) (hX0 : ∀ j, s.x .X0 j = c) (hX2 : ∀ _j : Nat, True)
    (hmem : s.mem = mem) (hout : s.out = none) (hl : s.loads = []) (hf : 24 ≤ f) :
    (run Gen.Asm.body_countbody f (block Gen.Asm.body_countbody "small") s).out = some ((cntSmall (fun b => b == c) mem base len).1 : Int) ∧
    (run Gen.Asm.body_countbody f (block Gen.Asm.body_countbody "small") s).loads = (cntSmall (fun b => b == c) mem base len).2 := by
  have a16 : (base + 0 + dispN 16) % W64 = base + 16 := by rw [dispN16]; unfold W64; omega
  have a0 : (base + 0 + dispN 0) % W64 = base := by rw [dispN0]; unfold W64; omega
  obtain ⟨g, rfl⟩ : ∃ g, f = g + 24 := ⟨f - 24, by omega⟩
  unfold cntSmall
  by_cases h0 : len = 0
  · subst h0
    rw [if_pos rfl]
    constructor <;> asm_exec [Gen.Asm.body_countbody, hSI, hBX, hout, hl] <;> rfl
  · rw [if_neg h0]
    have h0' : (len == 0) = false := beq_eq_false_iff_ne.mpr h0
    cases hp : ((4080 &&& (base + 16)) % 65536 == 0) with
    | false =>
      have hpt : ¬ ((base + 16) % 4096 / 16 = 0) := by
        have := pageTest (base + 16); rw [hp] at this
        intro h; rw [beq_iff_eq.mpr h] at this; cases this
      rw [if_neg hpt]
      have hm := lowMask_val (s.r Reg.CX) len h16
      have hcnt := popcnt_masked (fun j => if mem (base + j) = c then (255 : UInt8) else 0) (fun b => b == c) mem base
        (2 ^ len - 1) 0 len (by omega) (lowMask_bits len h16) (fun j => by by_cases h : mem (base + j) = c <;> simp [h])
      have hle := cntBits_le ((mask (fun j => if mem (base + j) = c then (255 : UInt8) else 0) 16 &&& (2 ^ len - 1)) % W32) 32 0
      have h63 : cntBits ((mask (fun j => if mem (base + j) = c then (255 : UInt8) else 0) 16 &&& (2 ^ len - 1)) % W32) 0 32 < 2 ^ 63 := by omega
      constructor
      · asm_exec [Gen.Asm.body_countbody, hSI, hBX, hX0, hX2, hmem, hout, hl, h0', a16, a0, hp, hm, h63]
        rw [hcnt]
      · asm_exec [Gen.Asm.body_countbody, hSI, hBX, hX0, hX2, hmem, hout, hl, h0', a16, a0, hp]
    | true =>
      have hpt : (base + 16) % 4096 / 16 = 0 := by
        have := pageTest (base + 16); rw [hp] at this
        exact beq_iff_eq.mp this.symm
      rw [if_pos hpt]
      have am : (base + len + dispN (-16)) % W64 = base + len - 16 := by rw [dispNm16]; unfold W64; omega
      have hm := highMask_val len h16 (by omega)
      have hbits : ∀ i, i < 16 → ((65535 >>> (16 - len)) <<< (16 - len)).testBit i =
          (decide (16 - len ≤ i) && decide (i < 16 - len + len)) := by
        intro i hi
        have := highMask_bits (16 - len) (by omega) i hi
        have e : 16 - (16 - len) = len := by omega
        rw [e] at this; exact this
      have hcnt := popcnt_masked (fun j => if mem (base + len - 16 + j) = c then (255 : UInt8) else 0) (fun b => b == c) mem
        (base + len - 16) ((65535 >>> (16 - len)) <<< (16 - len)) (16 - len) len (by omega) hbits
        (fun j => by by_cases h : mem (base + len - 16 + j) = c <;> simp [h])
      have hle := cntBits_le ((mask (fun j => if mem (base + len - 16 + j) = c then (255 : UInt8) else 0) 16 &&&
        ((65535 >>> (16 - len)) <<< (16 - len))) % W32) 32 0
      have h63 : cntBits ((mask (fun j => if mem (base + len - 16 + j) = c then (255 : UInt8) else 0) 16 &&&
        ((65535 >>> (16 - len)) <<< (16 - len))) % W32) 0 32 < 2 ^ 63 := by omega
      constructor
      · asm_exec [Gen.Asm.body_countbody, hSI, hBX, hX0, hX2, hmem, hout, hl, h0', a16, am, hp, hm, h63]
        rw [hcnt]
      · asm_exec [Gen.Asm.body_countbody, hSI, hBX, hX0, hX2, hmem, hout, hl, h0', a16, am, hp]

set_option maxRecDepth 8000 in
set_option maxHeartbeats 8000000 in
/-- **`countbodyCase`, `len < 16`** -/
theorem small_countbodyCase_correct (mem : Nat → UInt8) (base len : Nat) (c : UInt8) (s : St) (f : Nat)
    (h16 : len < 16) (hb : base + 32 < 2 ^ 64)
    (hSI : s.r .SI = base) (hBX : s.r .BX = len) (hX0 : ∀ j, s.x .X0 j = c) (hX2 : ∀ j, s.x .X2 j = 0x20)
    (hmem : s.mem = mem) (hout : s.out = none) (hl : s.loads = []) (hf : 24 ≤ f) :
    (run Gen.Asm.body_countbodyCase f (block Gen.Asm.body_countbodyCase "small") s).out = some ((cntSmall (fun b => (b ||| 0x20) == c) mem base len).1 : Int) ∧
    (run Gen.Asm.body_countbodyCase f (block Gen.Asm.body_countbodyCase "small") s).loads = (cntSmall (fun b => (b ||| 0x20) == c) mem base len).2 := by
  have a16 : (base + 0 + dispN 16) % W64 = base + 16 := by rw [dispN16]; unfold W64; omega
  have a0 : (base + 0 + dispN 0) % W64 = base := by rw [dispN0]; unfold W64; omega
  obtain ⟨g, rfl⟩ : ∃ g, f = g + 24 := ⟨f - 24, by omega⟩
  unfold cntSmall
  by_cases h0 : len = 0
  · subst h0
    rw [if_pos rfl]
    constructor <;> asm_exec [Gen.Asm.body_countbodyCase, hSI, hBX, hout, hl] <;> rfl
  · rw [if_neg h0]
    have h0' : (len == 0) = false := beq_eq_false_iff_ne.mpr h0
    cases hp : ((4080 &&& (base + 16)) % 65536 == 0) with
    | false =>
      have hpt : ¬ ((base + 16) % 4096 / 16 = 0) := by
        have := pageTest (base + 16); rw [hp] at this
        intro h; rw [beq_iff_eq.mpr h] at this; cases this
      rw [if_neg hpt]
      have hm := lowMask_val (s.r Reg.CX) len h16
      have hcnt := popcnt_masked (fun j => if mem (base + j) ||| 32 = c then (255 : UInt8) else 0) (fun b => (b ||| 0x20) == c) mem base
        (2 ^ len - 1) 0 len (by omega) (lowMask_bits len h16) (fun j => by by_cases h : mem (base + j) ||| 32 = c <;> simp [h])
      have hle := cntBits_le ((mask (fun j => if mem (base + j) ||| 32 = c then (255 : UInt8) else 0) 16 &&& (2 ^ len - 1)) % W32) 32 0
      have h63 : cntBits ((mask (fun j => if mem (base + j) ||| 32 = c then (255 : UInt8) else 0) 16 &&& (2 ^ len - 1)) % W32) 0 32 < 2 ^ 63 := by omega
      constructor
      · asm_exec [Gen.Asm.body_countbodyCase, hSI, hBX, hX0, hX2, hmem, hout, hl, h0', a16, a0, hp, hm, h63]
        rw [hcnt]
      · asm_exec [Gen.Asm.body_countbodyCase, hSI, hBX, hX0, hX2, hmem, hout, hl, h0', a16, a0, hp]
    | true =>
      have hpt : (base + 16) % 4096 / 16 = 0 := by
        have := pageTest (base + 16); rw [hp] at this
        exact beq_iff_eq.mp this.symm
      rw [if_pos hpt]
      have am : (base + len + dispN (-16)) % W64 = base + len - 16 := by rw [dispNm16]; unfold W64; omega
      have hm := highMask_val len h16 (by omega)
      have hbits : ∀ i, i < 16 → ((65535 >>> (16 - len)) <<< (16 - len)).testBit i =
          (decide (16 - len ≤ i) && decide (i < 16 - len + len)) := by
        intro i hi
        have := highMask_bits (16 - len) (by omega) i hi
        have e : 16 - (16 - len) = len := by omega
        rw [e] at this; exact this
      have hcnt := popcnt_masked (fun j => if mem (base + len - 16 + j) ||| 32 = c then (255 : UInt8) else 0) (fun b => (b ||| 0x20) == c) mem
        (base + len - 16) ((65535 >>> (16 - len)) <<< (16 - len)) (16 - len) len (by omega) hbits
        (fun j => by by_cases h : mem (base + len - 16 + j) ||| 32 = c <;> simp [h])
      have hle := cntBits_le ((mask (fun j => if mem (base + len - 16 + j) ||| 32 = c then (255 : UInt8) else 0) 16 &&&
        ((65535 >>> (16 - len)) <<< (16 - len))) % W32) 32 0
      have h63 : cntBits ((mask (fun j => if mem (base + len - 16 + j) ||| 32 = c then (255 : UInt8) else 0) 16 &&&
        ((65535 >>> (16 - len)) <<< (16 - len))) % W32) 0 32 < 2 ^ 63 := by omega
      constructor
      · asm_exec [Gen.Asm.body_countbodyCase, hSI, hBX, hX0, hX2, hmem, hout, hl, h0', a16, am, hp, hm, h63]
        rw [hcnt]
      · asm_exec [Gen.Asm.body_countbodyCase, hSI, hBX, hX0, hX2, hmem, hout, hl, h0', a16, am, hp]

end Asm
