import SC.Proofs.AsmLemmas
import SC.Gen.AsmFacts
/-!
The regenerated `len < 16` programs of the search kernels, run on the instruction-level model,
compute the block model `Kern.small` — result and loads — for every memory, base address, length < 16
and needle byte.
-/
namespace Asm
open Kern

/-- machine state at label `small`: `SI` = data, `BX` = length, `X0` = the needle byte in every lane,
    `X2` = 0x20 in every lane (the bodies' prologues broadcast them); every other register, the lanes of `X1` and the
    flags are arbitrary (`junk`, `jx`, `jz`, `jc`) -/
def init (mem : Nat → UInt8) (base len : Nat) (x0 : UInt8) (junk : Reg → Nat := fun _ => 0) (jx : Nat → UInt8 := fun _ => 0)
    (jz jc : Bool := false) : St where
  r := fun q => match q with | .BX => len | .SI => base | q => junk q
  x := fun q j => match q with | .X0 => x0 | .X2 => 0x20 | .X1 => jx j
  zf := jz
  cf := jc
  mem := mem
  loads := []
  out := none

def runSmall (p : Prog) (s : St) : St := run p 64 (block p "small") s

theorem and_self_eq_zero (n : Nat) : ((n &&& n) == 0) = (n == 0) := by rw [Nat.and_self]

example : (runSmall Gen.Asm.small_indexbytebody (init (fun i => if i = 4090 then 0x41 else 0) 4085 9 0x41)).out = some 5 := by
  decide +kernel
example : (runSmall Gen.Asm.small_indexbytebody (init (fun i => if i = 105 then 0x41 else 0) 100 9 0x41)).out = some 5 := by
  decide +kernel
example : (runSmall Gen.Asm.small_indexbytebody (init (fun i => if i = 105 then 0x41 else 0) 100 5 0x41)).out = some (-1) := by
  decide +kernel

end Asm

namespace Asm
open Kern

theorem dispN16 : dispN 16 = 16 := by decide
theorem dispN0 : dispN 0 = 0 := by decide
theorem dispNm16 : dispN (-16) = W64 - 16 := by decide

/-- symbolic execution of a regenerated small-path program -/
macro "asm_exec" "[" ts:Lean.Parser.Tactic.simpLemma,* "]" : tactic =>
  `(tactic| simp only [block, List.lookup, String.reduceBEq, Option.getD_some, List.map, List.flatten, List.append_nil, List.cons_append, List.nil_append, run, step, init, setR, setX, addr,
      and_self_eq_zero, reduceCtorEq, if_false, if_true, ite_self, Bool.false_eq_true, List.nil_append, Nat.mod_mod, decide_true, decide_false, Option.map_none, Option.map_some, $ts,*])

set_option maxRecDepth 8000 in
set_option maxHeartbeats 4000000 in
/-- **`indexbytebody`, `len < 16`**: running the instructions of the working tree from label `small` stores exactly what
    the block model `Kern.small` returns and performs exactly its load — for every memory, base, length and needle byte -/
theorem small_indexbytebody_correct (mem : Nat → UInt8) (base len : Nat) (c : UInt8) (junk : Reg → Nat) (jx : Nat → UInt8) (jz jc : Bool)
    (h16 : len < 16) (hb : base + 32 < 2 ^ 64) :
    (runSmall Gen.Asm.small_indexbytebody (init mem base len c junk jx jz jc)).out = some (small (fun b => b == c) mem base len).1 ∧
    (runSmall Gen.Asm.small_indexbytebody (init mem base len c junk jx jz jc)).loads = (small (fun b => b == c) mem base len).2 := by
  have hlw : len % W32 = len := Nat.mod_eq_of_lt (by unfold W32; omega)
  have a16 : (base + 0 + dispN 16) % W64 = base + 16 := by rw [dispN16]; unfold W64; omega
  have a0 : (base + 0 + dispN 0) % W64 = base := by rw [dispN0]; unfold W64; omega
  unfold runSmall small
  by_cases h0 : len = 0
  · subst h0
    rw [if_pos rfl]
    constructor <;> asm_exec [Gen.Asm.small_indexbytebody] <;> rfl
  · rw [if_neg h0]
    have h0' : (len == 0) = false := beq_eq_false_iff_ne.mpr h0
    cases hp : ((4080 &&& (base + 16)) % 65536 == 0) with
    | false =>
      have hpt : ¬ ((base + 16) % 4096 / 16 = 0) := by
        have := pageTest (base + 16); rw [hp] at this
        intro h; rw [beq_iff_eq.mpr h] at this; cases this
      rw [if_neg hpt]
      have hfb := bsf_mask (fun j => if mem (base + j) = c then (255 : UInt8) else 0) (fun b => b == c) mem base
        (fun j => by by_cases h : mem (base + j) = c <;> simp [h])
      cases hb2 : blk (fun b => b == c) mem base 0 16 with
      | none =>
        rw [hb2] at hfb
        constructor <;> asm_exec [Gen.Asm.small_indexbytebody, h0', a16, a0, hp, hfb]
      | some k =>
        rw [hb2] at hfb
        obtain ⟨_, hk16, _, _⟩ := blk_some hb2
        have hkw : k % W32 = k := Nat.mod_eq_of_lt (by unfold W32; omega)
        by_cases hkl : k < len
        · have hd : decide (k < len) = true := decide_eq_true hkl
          have hk63 : k < 2 ^ 63 := by omega
          constructor <;> asm_exec [Gen.Asm.small_indexbytebody, h0', a16, a0, hp, hfb, hkw, hlw, hd, hkl, hk63]
        · have hd : decide (k < len) = false := decide_eq_false hkl
          constructor <;> asm_exec [Gen.Asm.small_indexbytebody, h0', a16, a0, hp, hfb, hkw, hlw, hd, hkl]
    | true =>
      have hpt : (base + 16) % 4096 / 16 = 0 := by
        have := pageTest (base + 16); rw [hp] at this
        exact beq_iff_eq.mp this.symm
      rw [if_pos hpt]
      have am : (base + len + dispN (-16)) % W64 = base + len - 16 := by rw [dispNm16]; unfold W64; omega
      have hfb := bsf_shifted (fun j => if mem (base + len - 16 + j) = c then (255 : UInt8) else 0) (fun b => b == c) mem
        (base + len - 16) len h16 (fun j => by by_cases h : mem (base + len - 16 + j) = c <;> simp [h])
      cases hb2 : blk (fun b => b == c) mem (base + len - 16) (16 - len) len with
      | none =>
        rw [hb2] at hfb
        constructor <;> asm_exec [Gen.Asm.small_indexbytebody, h0', a16, am, hp, hlw, hfb]
      | some k =>
        rw [hb2] at hfb
        obtain ⟨_, hk16, _, _⟩ := blk_some hb2
        have hk63 : k - (16 - len) < 2 ^ 63 := by omega
        constructor <;> asm_exec [Gen.Asm.small_indexbytebody, h0', a16, am, hp, hlw, hfb, hk63]

set_option maxRecDepth 8000 in
set_option maxHeartbeats 4000000 in
/-- **`indexbytebodyCase`, `len < 16`** (letter needles: data OR-ed with 0x20, compared with the lower-cased needle in `X0`) -/
theorem small_indexbytebodyCase_correct (mem : Nat → UInt8) (base len : Nat) (c : UInt8) (junk : Reg → Nat) (jx : Nat → UInt8) (jz jc : Bool)
    (h16 : len < 16) (hb : base + 32 < 2 ^ 64) :
    (runSmall Gen.Asm.small_indexbytebodyCase (init mem base len c junk jx jz jc)).out = some (small (fun b => (b ||| 0x20) == c) mem base len).1 ∧
    (runSmall Gen.Asm.small_indexbytebodyCase (init mem base len c junk jx jz jc)).loads = (small (fun b => (b ||| 0x20) == c) mem base len).2 := by
  have hlw : len % W32 = len := Nat.mod_eq_of_lt (by unfold W32; omega)
  have a16 : (base + 0 + dispN 16) % W64 = base + 16 := by rw [dispN16]; unfold W64; omega
  have a0 : (base + 0 + dispN 0) % W64 = base := by rw [dispN0]; unfold W64; omega
  unfold runSmall small
  by_cases h0 : len = 0
  · subst h0
    rw [if_pos rfl]
    constructor <;> asm_exec [Gen.Asm.small_indexbytebodyCase] <;> rfl
  · rw [if_neg h0]
    have h0' : (len == 0) = false := beq_eq_false_iff_ne.mpr h0
    cases hp : ((4080 &&& (base + 16)) % 65536 == 0) with
    | false =>
      have hpt : ¬ ((base + 16) % 4096 / 16 = 0) := by
        have := pageTest (base + 16); rw [hp] at this
        intro h; rw [beq_iff_eq.mpr h] at this; cases this
      rw [if_neg hpt]
      have hfb := bsf_mask (fun j => if mem (base + j) ||| 32 = c then (255 : UInt8) else 0) (fun b => (b ||| 0x20) == c) mem base
        (fun j => by by_cases h : mem (base + j) ||| 32 = c <;> simp [h])
      cases hb2 : blk (fun b => (b ||| 0x20) == c) mem base 0 16 with
      | none =>
        rw [hb2] at hfb
        constructor <;> asm_exec [Gen.Asm.small_indexbytebodyCase, h0', a16, a0, hp, hfb]
      | some k =>
        rw [hb2] at hfb
        obtain ⟨_, hk16, _, _⟩ := blk_some hb2
        have hkw : k % W32 = k := Nat.mod_eq_of_lt (by unfold W32; omega)
        by_cases hkl : k < len
        · have hd : decide (k < len) = true := decide_eq_true hkl
          have hk63 : k < 2 ^ 63 := by omega
          constructor <;> asm_exec [Gen.Asm.small_indexbytebodyCase, h0', a16, a0, hp, hfb, hkw, hlw, hd, hkl, hk63]
        · have hd : decide (k < len) = false := decide_eq_false hkl
          constructor <;> asm_exec [Gen.Asm.small_indexbytebodyCase, h0', a16, a0, hp, hfb, hkw, hlw, hd, hkl]
    | true =>
      have hpt : (base + 16) % 4096 / 16 = 0 := by
        have := pageTest (base + 16); rw [hp] at this
        exact beq_iff_eq.mp this.symm
      rw [if_pos hpt]
      have am : (base + len + dispN (-16)) % W64 = base + len - 16 := by rw [dispNm16]; unfold W64; omega
      have hfb := bsf_shifted (fun j => if mem (base + len - 16 + j) ||| 32 = c then (255 : UInt8) else 0) (fun b => (b ||| 0x20) == c) mem
        (base + len - 16) len h16 (fun j => by by_cases h : mem (base + len - 16 + j) ||| 32 = c <;> simp [h])
      cases hb2 : blk (fun b => (b ||| 0x20) == c) mem (base + len - 16) (16 - len) len with
      | none =>
        rw [hb2] at hfb
        constructor <;> asm_exec [Gen.Asm.small_indexbytebodyCase, h0', a16, am, hp, hlw, hfb]
      | some k =>
        rw [hb2] at hfb
        obtain ⟨_, hk16, _, _⟩ := blk_some hb2
        have hk63 : k - (16 - len) < 2 ^ 63 := by omega
        constructor <;> asm_exec [Gen.Asm.small_indexbytebodyCase, h0', a16, am, hp, hlw, hfb, hk63]


set_option maxRecDepth 8000 in
set_option maxHeartbeats 4000000 in
/-- **`indexByteBodyNonASCII`, `len < 16`** (the top bit of every data byte, straight from `PMOVMSKB`) -/
theorem small_indexByteBodyNonASCII_correct (mem : Nat → UInt8) (base len : Nat) (c : UInt8) (junk : Reg → Nat) (jx : Nat → UInt8) (jz jc : Bool)
    (h16 : len < 16) (hb : base + 32 < 2 ^ 64) :
    (runSmall Gen.Asm.small_indexByteBodyNonASCII (init mem base len c junk jx jz jc)).out = some (small (fun b => decide (b ≥ 0x80)) mem base len).1 ∧
    (runSmall Gen.Asm.small_indexByteBodyNonASCII (init mem base len c junk jx jz jc)).loads = (small (fun b => decide (b ≥ 0x80)) mem base len).2 := by
  have hlw : len % W32 = len := Nat.mod_eq_of_lt (by unfold W32; omega)
  have a16 : (base + 0 + dispN 16) % W64 = base + 16 := by rw [dispN16]; unfold W64; omega
  have a0 : (base + 0 + dispN 0) % W64 = base := by rw [dispN0]; unfold W64; omega
  unfold runSmall small
  by_cases h0 : len = 0
  · subst h0
    rw [if_pos rfl]
    constructor <;> asm_exec [Gen.Asm.small_indexByteBodyNonASCII] <;> rfl
  · rw [if_neg h0]
    have h0' : (len == 0) = false := beq_eq_false_iff_ne.mpr h0
    cases hp : ((4080 &&& (base + 16)) % 65536 == 0) with
    | false =>
      have hpt : ¬ ((base + 16) % 4096 / 16 = 0) := by
        have := pageTest (base + 16); rw [hp] at this
        intro h; rw [beq_iff_eq.mpr h] at this; cases this
      rw [if_neg hpt]
      have hfb := bsf_mask (fun j => mem (base + j)) (fun b => decide (b ≥ 0x80)) mem base
        (fun j => rfl)
      cases hb2 : blk (fun b => decide (b ≥ 0x80)) mem base 0 16 with
      | none =>
        rw [hb2] at hfb
        constructor <;> asm_exec [Gen.Asm.small_indexByteBodyNonASCII, h0', a16, a0, hp, hfb]
      | some k =>
        rw [hb2] at hfb
        obtain ⟨_, hk16, _, _⟩ := blk_some hb2
        have hkw : k % W32 = k := Nat.mod_eq_of_lt (by unfold W32; omega)
        by_cases hkl : k < len
        · have hd : decide (k < len) = true := decide_eq_true hkl
          have hk63 : k < 2 ^ 63 := by omega
          constructor <;> asm_exec [Gen.Asm.small_indexByteBodyNonASCII, h0', a16, a0, hp, hfb, hkw, hlw, hd, hkl, hk63]
        · have hd : decide (k < len) = false := decide_eq_false hkl
          constructor <;> asm_exec [Gen.Asm.small_indexByteBodyNonASCII, h0', a16, a0, hp, hfb, hkw, hlw, hd, hkl]
    | true =>
      have hpt : (base + 16) % 4096 / 16 = 0 := by
        have := pageTest (base + 16); rw [hp] at this
        exact beq_iff_eq.mp this.symm
      rw [if_pos hpt]
      have am : (base + len + dispN (-16)) % W64 = base + len - 16 := by rw [dispNm16]; unfold W64; omega
      have hfb := bsf_shifted (fun j => mem (base + len - 16 + j)) (fun b => decide (b ≥ 0x80)) mem
        (base + len - 16) len h16 (fun j => rfl)
      cases hb2 : blk (fun b => decide (b ≥ 0x80)) mem (base + len - 16) (16 - len) len with
      | none =>
        rw [hb2] at hfb
        constructor <;> asm_exec [Gen.Asm.small_indexByteBodyNonASCII, h0', a16, am, hp, hlw, hfb]
      | some k =>
        rw [hb2] at hfb
        obtain ⟨_, hk16, _, _⟩ := blk_some hb2
        have hk63 : k - (16 - len) < 2 ^ 63 := by omega
        constructor <;> asm_exec [Gen.Asm.small_indexByteBodyNonASCII, h0', a16, am, hp, hlw, hfb, hk63]


set_option maxRecDepth 8000 in
set_option maxHeartbeats 4000000 in
/-- **`countbody`, `len < 16`**: the regenerated instruction sequence stores the block model's count and performs its load -/
theorem small_countbody_correct (mem : Nat → UInt8) (base len : Nat) (c : UInt8) (junk : Reg → Nat) (jx : Nat → UInt8) (jz jc : Bool)
    (h16 : len < 16) (hb : base + 32 < 2 ^ 64) :
    (runSmall Gen.Asm.small_countbody (init mem base len c junk jx jz jc)).out = some ((cntSmall (fun b => b == c) mem base len).1 : Int) ∧
    (runSmall Gen.Asm.small_countbody (init mem base len c junk jx jz jc)).loads = (cntSmall (fun b => b == c) mem base len).2 := by
  have a16 : (base + 0 + dispN 16) % W64 = base + 16 := by rw [dispN16]; unfold W64; omega
  have a0 : (base + 0 + dispN 0) % W64 = base := by rw [dispN0]; unfold W64; omega
  unfold runSmall cntSmall
  by_cases h0 : len = 0
  · subst h0
    rw [if_pos rfl]
    constructor <;> asm_exec [Gen.Asm.small_countbody] <;> rfl
  · rw [if_neg h0]
    have h0' : (len == 0) = false := beq_eq_false_iff_ne.mpr h0
    cases hp : ((4080 &&& (base + 16)) % 65536 == 0) with
    | false =>
      have hpt : ¬ ((base + 16) % 4096 / 16 = 0) := by
        have := pageTest (base + 16); rw [hp] at this
        intro h; rw [beq_iff_eq.mpr h] at this; cases this
      rw [if_neg hpt]
      have hm := lowMask_val (junk Reg.CX) len h16
      have hcnt := popcnt_masked (fun j => if mem (base + j) = c then (255 : UInt8) else 0) (fun b => b == c) mem base
        (2 ^ len - 1) 0 len (by omega) (lowMask_bits len h16) (fun j => by by_cases h : mem (base + j) = c <;> simp [h])
      have hle := cntBits_le ((mask (fun j => if mem (base + j) = c then (255 : UInt8) else 0) 16 &&& (2 ^ len - 1)) % W32) 32 0
      have h63 : cntBits ((mask (fun j => if mem (base + j) = c then (255 : UInt8) else 0) 16 &&& (2 ^ len - 1)) % W32) 0 32 < 2 ^ 63 := by omega
      constructor
      · asm_exec [Gen.Asm.small_countbody, h0', a16, a0, hp, hm, h63]
        rw [hcnt]
      · asm_exec [Gen.Asm.small_countbody, h0', a16, a0, hp]
    | true =>
      have hpt : (base + 16) % 4096 / 16 = 0 := by
        have := pageTest (base + 16); rw [hp] at this
        exact beq_iff_eq.mp this.symm
      rw [if_pos hpt]
      have am : (base + len + dispN (-16)) % W64 = base + len - 16 := by rw [dispNm16]; unfold W64; omega
      have hm := highMask_val len h16 (by omega)
      have hbits : ∀ i, i < 16 → ((65535 >>> (16 - len)) <<< (16 - len)).testBit i =
          (decide (16 - len ≤ i) && decide (i < 16 - len + len)) := by
        intro i hi
        have := highMask_bits (16 - len) (by omega) i hi
        have e : 16 - (16 - len) = len := by omega
        rw [e] at this; exact this
      have hcnt := popcnt_masked (fun j => if mem (base + len - 16 + j) = c then (255 : UInt8) else 0) (fun b => b == c) mem
        (base + len - 16) ((65535 >>> (16 - len)) <<< (16 - len)) (16 - len) len (by omega) hbits
        (fun j => by by_cases h : mem (base + len - 16 + j) = c <;> simp [h])
      have hle := cntBits_le ((mask (fun j => if mem (base + len - 16 + j) = c then (255 : UInt8) else 0) 16 &&&
        ((65535 >>> (16 - len)) <<< (16 - len))) % W32) 32 0
      have h63 : cntBits ((mask (fun j => if mem (base + len - 16 + j) = c then (255 : UInt8) else 0) 16 &&&
        ((65535 >>> (16 - len)) <<< (16 - len))) % W32) 0 32 < 2 ^ 63 := by omega
      constructor
      · asm_exec [Gen.Asm.small_countbody, h0', a16, am, hp, hm, h63]
        rw [hcnt]
      · asm_exec [Gen.Asm.small_countbody, h0', a16, am, hp]

set_option maxRecDepth 8000 in
set_option maxHeartbeats 4000000 in
/-- **`countbodyCase`, `len < 16`** -/
theorem small_countbodyCase_correct (mem : Nat → UInt8) (base len : Nat) (c : UInt8) (junk : Reg → Nat) (jx : Nat → UInt8) (jz jc : Bool)
    (h16 : len < 16) (hb : base + 32 < 2 ^ 64) :
    (runSmall Gen.Asm.small_countbodyCase (init mem base len c junk jx jz jc)).out = some ((cntSmall (fun b => (b ||| 0x20) == c) mem base len).1 : Int) ∧
    (runSmall Gen.Asm.small_countbodyCase (init mem base len c junk jx jz jc)).loads = (cntSmall (fun b => (b ||| 0x20) == c) mem base len).2 := by
  have a16 : (base + 0 + dispN 16) % W64 = base + 16 := by rw [dispN16]; unfold W64; omega
  have a0 : (base + 0 + dispN 0) % W64 = base := by rw [dispN0]; unfold W64; omega
  unfold runSmall cntSmall
  by_cases h0 : len = 0
  · subst h0
    rw [if_pos rfl]
    constructor <;> asm_exec [Gen.Asm.small_countbodyCase] <;> rfl
  · rw [if_neg h0]
    have h0' : (len == 0) = false := beq_eq_false_iff_ne.mpr h0
    cases hp : ((4080 &&& (base + 16)) % 65536 == 0) with
    | false =>
      have hpt : ¬ ((base + 16) % 4096 / 16 = 0) := by
        have := pageTest (base + 16); rw [hp] at this
        intro h; rw [beq_iff_eq.mpr h] at this; cases this
      rw [if_neg hpt]
      have hm := lowMask_val (junk Reg.CX) len h16
      have hcnt := popcnt_masked (fun j => if mem (base + j) ||| 32 = c then (255 : UInt8) else 0) (fun b => (b ||| 0x20) == c) mem base
        (2 ^ len - 1) 0 len (by omega) (lowMask_bits len h16) (fun j => by by_cases h : mem (base + j) ||| 32 = c <;> simp [h])
      have hle := cntBits_le ((mask (fun j => if mem (base + j) ||| 32 = c then (255 : UInt8) else 0) 16 &&& (2 ^ len - 1)) % W32) 32 0
      have h63 : cntBits ((mask (fun j => if mem (base + j) ||| 32 = c then (255 : UInt8) else 0) 16 &&& (2 ^ len - 1)) % W32) 0 32 < 2 ^ 63 := by omega
      constructor
      · asm_exec [Gen.Asm.small_countbodyCase, h0', a16, a0, hp, hm, h63]
        rw [hcnt]
      · asm_exec [Gen.Asm.small_countbodyCase, h0', a16, a0, hp]
    | true =>
      have hpt : (base + 16) % 4096 / 16 = 0 := by
        have := pageTest (base + 16); rw [hp] at this
        exact beq_iff_eq.mp this.symm
      rw [if_pos hpt]
      have am : (base + len + dispN (-16)) % W64 = base + len - 16 := by rw [dispNm16]; unfold W64; omega
      have hm := highMask_val len h16 (by omega)
      have hbits : ∀ i, i < 16 → ((65535 >>> (16 - len)) <<< (16 - len)).testBit i =
          (decide (16 - len ≤ i) && decide (i < 16 - len + len)) := by
        intro i hi
        have := highMask_bits (16 - len) (by omega) i hi
        have e : 16 - (16 - len) = len := by omega
        rw [e] at this; exact this
      have hcnt := popcnt_masked (fun j => if mem (base + len - 16 + j) ||| 32 = c then (255 : UInt8) else 0) (fun b => (b ||| 0x20) == c) mem
        (base + len - 16) ((65535 >>> (16 - len)) <<< (16 - len)) (16 - len) len (by omega) hbits
        (fun j => by by_cases h : mem (base + len - 16 + j) ||| 32 = c <;> simp [h])
      have hle := cntBits_le ((mask (fun j => if mem (base + len - 16 + j) ||| 32 = c then (255 : UInt8) else 0) 16 &&&
        ((65535 >>> (16 - len)) <<< (16 - len))) % W32) 32 0
      have h63 : cntBits ((mask (fun j => if mem (base + len - 16 + j) ||| 32 = c then (255 : UInt8) else 0) 16 &&&
        ((65535 >>> (16 - len)) <<< (16 - len))) % W32) 0 32 < 2 ^ 63 := by omega
      constructor
      · asm_exec [Gen.Asm.small_countbodyCase, h0', a16, am, hp, hm, h63]
        rw [hcnt]
      · asm_exec [Gen.Asm.small_countbodyCase, h0', a16, am, hp]

end Asm
