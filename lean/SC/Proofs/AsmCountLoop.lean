import SC.Proofs.AsmLoop
/-!
The SSE counting loops of `countbody` / `countbodyCase` at instruction level: invariant over machine states
(`SI` = base, `DI` = base + di, `AX` = last block, `BX` = len, `R12` = matches counted so far), then the masked
overlapping tail.
-/
namespace Asm
open Kern

set_option maxRecDepth 8000 in
set_option maxHeartbeats 16000000 in
theorem ssecnt_countbody_inv (mem : Nat → UInt8) (base len : Nat) (c : UInt8) (h16 : 16 ≤ len) (hb : base + len + 32 < 2 ^ 62) :
    ∀ (n di acc : Nat) (s : St) (f : Nat),
      s.r .SI = base → s.r .DI = base + di → s.r .AX = base + len - 16 → s.r .BX = len → s.r .R12 = acc →
      (∀ j, s.x .X0 j = c) → (∀ _j : Nat, True) → s.mem = mem → s.out = none →
      di ≤ len → acc ≤ di → len < n * 16 + di → 8 * n + 20 ≤ f →
      (run Gen.Asm.body_countbody f (Lentry Gen.Asm.body_countbody) s).out =
          some (((cntLoop P16 (fun b => b == c) mem base len n di acc).1 : Nat) : Int) ∧
      (run Gen.Asm.body_countbody f (Lentry Gen.Asm.body_countbody) s).loads =
          s.loads ++ (cntLoop P16 (fun b => b == c) mem base len n di acc).2 := by
  intro n
  induction n with
  | zero => intro di acc s f _ _ _ _ _ _ _ _ _ h1 _ h2; omega
  | succ n ih =>
    intro di acc s f hSI hDI hAX hBX hR12 hX0 hX2 hmem hout hdl hacc hf hfuel
    have hW : W64 = 2 ^ 64 := rfl
    show _ = some (((cntLoop ⟨16, 16, 16⟩ (fun b => b == c) mem base len (n + 1) di acc).1 : Nat) : Int) ∧
      _ = s.loads ++ (cntLoop ⟨16, 16, 16⟩ (fun b => b == c) mem base len (n + 1) di acc).2
    rw [cntLoop_succ16]
    by_cases hle : di ≤ len - 16
    · rw [if_pos hle]
      have hj : (decide (base + di < base + len - 16) || (base + di == base + len - 16)) = true := by
        by_cases h : di = len - 16
        · have : base + di = base + len - 16 := by omega
          simp [this]
        · have : base + di < base + len - 16 := by omega
          simp [this]
      have a0 : (base + di + 0 + dispN 0) % W64 = base + di := by rw [dispN0, hW]; omega
      have hpc := popcnt_full (fun j => if mem (base + di + j) = c then (255 : UInt8) else 0) (fun b => b == c) mem (base + di)
        (fun j => by by_cases h : mem (base + di + j) = c <;> simp [h])
      have hq := cntBlk_le (fun b => b == c) mem (base + di) 16 0
      have haccq : (acc + cntBlk (fun b => b == c) mem (base + di) 0 16) % W64 = acc + cntBlk (fun b => b == c) mem (base + di) 0 16 := by
        rw [hW]; omega
      have hadd : (base + di + 16 % W64) % W64 = base + (di + 16) := by rw [hW]; omega
      obtain ⟨g, rfl⟩ : ∃ g, f = g + 8 := ⟨f - 8, by omega⟩
      have hstep : ∃ s' : St, run Gen.Asm.body_countbody (g + 8) (Lentry Gen.Asm.body_countbody) s =
            run Gen.Asm.body_countbody g (Lentry Gen.Asm.body_countbody) s' ∧
          s'.r .SI = base ∧ s'.r .DI = base + (di + 16) ∧ s'.r .AX = base + len - 16 ∧ s'.r .BX = len ∧
          s'.r .R12 = acc + cntBlk (fun b => b == c) mem (base + di) 0 16 ∧ (∀ j, s'.x .X0 j = c) ∧
          (∀ _j : Nat, True) ∧ s'.mem = mem ∧ s'.out = none ∧ s'.loads = s.loads ++ [(base + di, 16)] := by
        refine ⟨?_, ?_, ?_, ?_, ?_, ?_, ?_, ?_, ?_, ?_, ?_, ?_⟩
        case refine_2 =>
          asm_step [Gen.Asm.body_countbody, hSI, hDI, hAX, hBX, hR12, hX0, hX2, hmem, hj, a0, hpc, haccq, hadd]
          rfl
        all_goals simp [hSI, hAX, hBX, hX0, hX2, hout]
      obtain ⟨s', he, i1, i2, i3, i4, i5, i6, i7, i8, i9, i10⟩ := hstep
      have := ih (di + 16) (acc + cntBlk (fun b => b == c) mem (base + di) 0 16) s' g i1 i2 i3 i4 i5 i6 i7 i8 i9
        (by omega) (by omega) (by omega) (by omega)
      rw [he, this.1, this.2, i10]
      exact ⟨rfl, by simp [P16]⟩
    · rw [if_neg hle]
      have hj : (decide (base + di < base + len - 16) || (base + di == base + len - 16)) = false := by
        have h1 : ¬ base + di < base + len - 16 := by omega
        have h2 : ¬ base + di = base + len - 16 := by omega
        simp [h1, h2]
      have hand := and15 len
      have hacc63 : acc < 2 ^ 63 := by omega
      by_cases hrem : len % 16 = 0
      · rw [if_pos hrem]
        have hz : (len % 16 == 0) = true := beq_iff_eq.mpr hrem
        obtain ⟨g, rfl⟩ : ∃ g, f = g + 20 := ⟨f - 20, by omega⟩
        constructor <;> asm_step [Gen.Asm.body_countbody, hSI, hDI, hAX, hBX, hR12, hX0, hX2, hmem, hout, hj, hand, hz, hacc63]
      · rw [if_neg hrem]
        have hz : (len % 16 == 0) = false := beq_eq_false_iff_ne.mpr hrem
        have hcx : (16 % W64 + W64 - len % 16 % W64) % W64 = 16 - len % 16 := by rw [hW]; omega
        have hm := highMask_val' (16 - len % 16) (by omega)
        have a0 : (base + len - 16 + 0 + dispN 0) % W64 = base + len - 16 := by rw [dispN0, hW]; omega
        have hbits : ∀ i, i < 16 → ((65535 >>> (16 - len % 16)) <<< (16 - len % 16)).testBit i =
            (decide (16 - len % 16 ≤ i) && decide (i < 16 - len % 16 + len % 16)) := by
          intro i hi
          have := highMask_bits (16 - len % 16) (by omega) i hi
          have e : 16 - (16 - len % 16) = len % 16 := by omega
          rw [e] at this; exact this
        have hpc := popcnt_masked (fun j => if mem (base + len - 16 + j) = c then (255 : UInt8) else 0) (fun b => b == c) mem
          (base + len - 16) ((65535 >>> (16 - len % 16)) <<< (16 - len % 16)) (16 - len % 16) (len % 16) (by omega) hbits
          (fun j => by by_cases h : mem (base + len - 16 + j) = c <;> simp [h])
        have hq := cntBlk_le (fun b => b == c) mem (base + len - 16) (len % 16) (16 - len % 16)
        have haccq : (acc + cntBlk (fun b => b == c) mem (base + len - 16) (16 - len % 16) (len % 16)) % W64 =
            acc + cntBlk (fun b => b == c) mem (base + len - 16) (16 - len % 16) (len % 16) := by rw [hW]; omega
        have h63 : acc + cntBlk (fun b => b == c) mem (base + len - 16) (16 - len % 16) (len % 16) < 2 ^ 63 := by omega
        have eaddr : base + (len - 16) = base + len - 16 := by omega
        rw [eaddr]
        obtain ⟨g, rfl⟩ : ∃ g, f = g + 20 := ⟨f - 20, by omega⟩
        constructor <;> asm_step [Gen.Asm.body_countbody, hSI, hDI, hAX, hBX, hR12, hX0, hX2, hmem, hout, hj, hand, hz, hcx, hm, a0,
          hpc, haccq, h63]

set_option maxRecDepth 8000 in
set_option maxHeartbeats 8000000 in
/-- **`countbody`, SSE loop, from label `sse`** (`SI` = `DI` = data, `BX` = length ≥ 16, `R12` = 0, needle lanes in `X0`): the
    regenerated instructions store the scalar count, every load inside the argument -/
theorem ssecnt_countbody_correct (mem : Nat → UInt8) (base len : Nat) (c : UInt8) (s : St) (f : Nat)
    (h16 : 16 ≤ len) (hb : base + len + 32 < 2 ^ 62)
    (hSI : s.r .SI = base) (hDI : s.r .DI = base) (hBX : s.r .BX = len) (hR12 : s.r .R12 = 0)
    (hX0 : ∀ j, s.x .X0 j = c) (hX2 : ∀ _j : Nat, True)
    (hmem : s.mem = mem) (hout : s.out = none) (hl : s.loads = []) (hf : 9 * (len + 1) + 24 ≤ f) :
    (run Gen.Asm.body_countbody f (block Gen.Asm.body_countbody "sse") s).out =
        some ((specCount (fun b => b == c) mem base len : Nat) : Int) ∧
    ∀ ld ∈ (run Gen.Asm.body_countbody f (block Gen.Asm.body_countbody "sse") s).loads, base ≤ ld.1 ∧ ld.1 + ld.2 ≤ base + len := by
  have hW : W64 = 2 ^ 64 := rfl
  obtain ⟨g, rfl⟩ : ∃ g, f = g + 2 := ⟨f - 2, by omega⟩
  have alea : (base + len + dispN (-16)) % W64 = base + len - 16 := by rw [dispNm16, hW]; omega
  have hinv := ssecnt_countbody_inv mem base len c h16 hb (len + 1) 0 0
    { s with r := fun q => if q = Reg.AX then base + len - 16 else s.r q } g
    (by simp [hSI]) (by simp [hDI]) (by simp) (by simp [hBX]) (by simp [hR12]) hX0 hX2 hmem hout
    (by omega) (by omega) (by omega) (by omega)
  have hcor := cntLoop_correct P16 ⟨rfl, rfl, by decide⟩ (fun b => b == c) mem base len h16 (len + 1) 0 0 (by omega)
    (by show len < (len + 1 + 0) * 16; omega) (by simp [cntBlk])
  have e0 : 0 * P16.width = 0 := by omega
  rw [e0] at hcor
  have e : run Gen.Asm.body_countbody (g + 2) (block Gen.Asm.body_countbody "sse") s =
      run Gen.Asm.body_countbody g (Lentry Gen.Asm.body_countbody)
        { s with r := fun q => if q = Reg.AX then base + len - 16 else s.r q } := by
    asm_step [Gen.Asm.body_countbody, hSI, hBX, alea]
  rw [e, hinv.1, hinv.2, hcor.1]
  refine ⟨rfl, ?_⟩
  intro ld hld
  simp only [hl, List.nil_append] at hld
  exact hcor.2 ld hld

set_option maxRecDepth 8000 in
set_option maxHeartbeats 16000000 in
theorem ssecnt_countbodyCase_inv (mem : Nat → UInt8) (base len : Nat) (c : UInt8) (h16 : 16 ≤ len) (hb : base + len + 32 < 2 ^ 62) :
    ∀ (n di acc : Nat) (s : St) (f : Nat),
      s.r .SI = base → s.r .DI = base + di → s.r .AX = base + len - 16 → s.r .BX = len → s.r .R12 = acc →
      (∀ j, s.x .X0 j = c) → (∀ j, s.x .X2 j = 0x20) → s.mem = mem → s.out = none →
      di ≤ len → acc ≤ di → len < n * 16 + di → 9 * n + 22 ≤ f →
      (run Gen.Asm.body_countbodyCase f (Lentry Gen.Asm.body_countbodyCase) s).out =
          some (((cntLoop P16 (fun b => (b ||| 0x20) == c) mem base len n di acc).1 : Nat) : Int) ∧
      (run Gen.Asm.body_countbodyCase f (Lentry Gen.Asm.body_countbodyCase) s).loads =
          s.loads ++ (cntLoop P16 (fun b => (b ||| 0x20) == c) mem base len n di acc).2 := by
  intro n
  induction n with
  | zero => intro di acc s f _ _ _ _ _ _ _ _ _ h1 _ h2; omega
  | succ n ih =>
    intro di acc s f hSI hDI hAX hBX hR12 hX0 hX2 hmem hout hdl hacc hf hfuel
    have hW : W64 = 2 ^ 64 := rfl
    show _ = some (((cntLoop ⟨16, 16, 16⟩ (fun b => (b ||| 0x20) == c) mem base len (n + 1) di acc).1 : Nat) : Int) ∧
      _ = s.loads ++ (cntLoop ⟨16, 16, 16⟩ (fun b => (b ||| 0x20) == c) mem base len (n + 1) di acc).2
    rw [cntLoop_succ16]
    by_cases hle : di ≤ len - 16
    · rw [if_pos hle]
      have hj : (decide (base + di < base + len - 16) || (base + di == base + len - 16)) = true := by
        by_cases h : di = len - 16
        · have : base + di = base + len - 16 := by omega
          simp [this]
        · have : base + di < base + len - 16 := by omega
          simp [this]
      have a0 : (base + di + 0 + dispN 0) % W64 = base + di := by rw [dispN0, hW]; omega
      have hpc := popcnt_full (fun j => if mem (base + di + j) ||| 32 = c then (255 : UInt8) else 0) (fun b => (b ||| 0x20) == c) mem (base + di)
        (fun j => by by_cases h : mem (base + di + j) ||| 32 = c <;> simp [h])
      have hq := cntBlk_le (fun b => (b ||| 0x20) == c) mem (base + di) 16 0
      have haccq : (acc + cntBlk (fun b => (b ||| 0x20) == c) mem (base + di) 0 16) % W64 = acc + cntBlk (fun b => (b ||| 0x20) == c) mem (base + di) 0 16 := by
        rw [hW]; omega
      have hadd : (base + di + 16 % W64) % W64 = base + (di + 16) := by rw [hW]; omega
      obtain ⟨g, rfl⟩ : ∃ g, f = g + 9 := ⟨f - 9, by omega⟩
      have hstep : ∃ s' : St, run Gen.Asm.body_countbodyCase (g + 9) (Lentry Gen.Asm.body_countbodyCase) s =
            run Gen.Asm.body_countbodyCase g (Lentry Gen.Asm.body_countbodyCase) s' ∧
          s'.r .SI = base ∧ s'.r .DI = base + (di + 16) ∧ s'.r .AX = base + len - 16 ∧ s'.r .BX = len ∧
          s'.r .R12 = acc + cntBlk (fun b => (b ||| 0x20) == c) mem (base + di) 0 16 ∧ (∀ j, s'.x .X0 j = c) ∧
          (∀ j, s'.x .X2 j = 0x20) ∧ s'.mem = mem ∧ s'.out = none ∧ s'.loads = s.loads ++ [(base + di, 16)] := by
        refine ⟨?_, ?_, ?_, ?_, ?_, ?_, ?_, ?_, ?_, ?_, ?_, ?_⟩
        case refine_2 =>
          asm_step [Gen.Asm.body_countbodyCase, hSI, hDI, hAX, hBX, hR12, hX0, hX2, hmem, hj, a0, hpc, haccq, hadd]
          rfl
        all_goals simp [hSI, hAX, hBX, hX0, hX2, hout]
      obtain ⟨s', he, i1, i2, i3, i4, i5, i6, i7, i8, i9, i10⟩ := hstep
      have := ih (di + 16) (acc + cntBlk (fun b => (b ||| 0x20) == c) mem (base + di) 0 16) s' g i1 i2 i3 i4 i5 i6 i7 i8 i9
        (by omega) (by omega) (by omega) (by omega)
      rw [he, this.1, this.2, i10]
      exact ⟨rfl, by simp [P16]⟩
    · rw [if_neg hle]
      have hj : (decide (base + di < base + len - 16) || (base + di == base + len - 16)) = false := by
        have h1 : ¬ base + di < base + len - 16 := by omega
        have h2 : ¬ base + di = base + len - 16 := by omega
        simp [h1, h2]
      have hand := and15 len
      have hacc63 : acc < 2 ^ 63 := by omega
      by_cases hrem : len % 16 = 0
      · rw [if_pos hrem]
        have hz : (len % 16 == 0) = true := beq_iff_eq.mpr hrem
        obtain ⟨g, rfl⟩ : ∃ g, f = g + 22 := ⟨f - 22, by omega⟩
        constructor <;> asm_step [Gen.Asm.body_countbodyCase, hSI, hDI, hAX, hBX, hR12, hX0, hX2, hmem, hout, hj, hand, hz, hacc63]
      · rw [if_neg hrem]
        have hz : (len % 16 == 0) = false := beq_eq_false_iff_ne.mpr hrem
        have hcx : (16 % W64 + W64 - len % 16 % W64) % W64 = 16 - len % 16 := by rw [hW]; omega
        have hm := highMask_val' (16 - len % 16) (by omega)
        have a0 : (base + len - 16 + 0 + dispN 0) % W64 = base + len - 16 := by rw [dispN0, hW]; omega
        have hbits : ∀ i, i < 16 → ((65535 >>> (16 - len % 16)) <<< (16 - len % 16)).testBit i =
            (decide (16 - len % 16 ≤ i) && decide (i < 16 - len % 16 + len % 16)) := by
          intro i hi
          have := highMask_bits (16 - len % 16) (by omega) i hi
          have e : 16 - (16 - len % 16) = len % 16 := by omega
          rw [e] at this; exact this
        have hpc := popcnt_masked (fun j => if mem (base + len - 16 + j) ||| 32 = c then (255 : UInt8) else 0) (fun b => (b ||| 0x20) == c) mem
          (base + len - 16) ((65535 >>> (16 - len % 16)) <<< (16 - len % 16)) (16 - len % 16) (len % 16) (by omega) hbits
          (fun j => by by_cases h : mem (base + len - 16 + j) ||| 32 = c <;> simp [h])
        have hq := cntBlk_le (fun b => (b ||| 0x20) == c) mem (base + len - 16) (len % 16) (16 - len % 16)
        have haccq : (acc + cntBlk (fun b => (b ||| 0x20) == c) mem (base + len - 16) (16 - len % 16) (len % 16)) % W64 =
            acc + cntBlk (fun b => (b ||| 0x20) == c) mem (base + len - 16) (16 - len % 16) (len % 16) := by rw [hW]; omega
        have h63 : acc + cntBlk (fun b => (b ||| 0x20) == c) mem (base + len - 16) (16 - len % 16) (len % 16) < 2 ^ 63 := by omega
        have eaddr : base + (len - 16) = base + len - 16 := by omega
        rw [eaddr]
        obtain ⟨g, rfl⟩ : ∃ g, f = g + 22 := ⟨f - 22, by omega⟩
        constructor <;> asm_step [Gen.Asm.body_countbodyCase, hSI, hDI, hAX, hBX, hR12, hX0, hX2, hmem, hout, hj, hand, hz, hcx, hm, a0,
          hpc, haccq, h63]

set_option maxRecDepth 8000 in
set_option maxHeartbeats 8000000 in
/-- **`countbodyCase`, SSE loop, from label `sse`** (`SI` = `DI` = data, `BX` = length ≥ 16, `R12` = 0, needle lanes in `X0`): the
    regenerated instructions store the scalar count, every load inside the argument -/
theorem ssecnt_countbodyCase_correct (mem : Nat → UInt8) (base len : Nat) (c : UInt8) (s : St) (f : Nat)
    (h16 : 16 ≤ len) (hb : base + len + 32 < 2 ^ 62)
    (hSI : s.r .SI = base) (hDI : s.r .DI = base) (hBX : s.r .BX = len) (hR12 : s.r .R12 = 0)
    (hX0 : ∀ j, s.x .X0 j = c) (hX2 : ∀ j, s.x .X2 j = 0x20)
    (hmem : s.mem = mem) (hout : s.out = none) (hl : s.loads = []) (hf : 9 * (len + 1) + 24 ≤ f) :
    (run Gen.Asm.body_countbodyCase f (block Gen.Asm.body_countbodyCase "sse") s).out =
        some ((specCount (fun b => (b ||| 0x20) == c) mem base len : Nat) : Int) ∧
    ∀ ld ∈ (run Gen.Asm.body_countbodyCase f (block Gen.Asm.body_countbodyCase "sse") s).loads, base ≤ ld.1 ∧ ld.1 + ld.2 ≤ base + len := by
  have hW : W64 = 2 ^ 64 := rfl
  obtain ⟨g, rfl⟩ : ∃ g, f = g + 2 := ⟨f - 2, by omega⟩
  have alea : (base + len + dispN (-16)) % W64 = base + len - 16 := by rw [dispNm16, hW]; omega
  have hinv := ssecnt_countbodyCase_inv mem base len c h16 hb (len + 1) 0 0
    { s with r := fun q => if q = Reg.AX then base + len - 16 else s.r q } g
    (by simp [hSI]) (by simp [hDI]) (by simp) (by simp [hBX]) (by simp [hR12]) hX0 hX2 hmem hout
    (by omega) (by omega) (by omega) (by omega)
  have hcor := cntLoop_correct P16 ⟨rfl, rfl, by decide⟩ (fun b => (b ||| 0x20) == c) mem base len h16 (len + 1) 0 0 (by omega)
    (by show len < (len + 1 + 0) * 16; omega) (by simp [cntBlk])
  have e0 : 0 * P16.width = 0 := by omega
  rw [e0] at hcor
  have e : run Gen.Asm.body_countbodyCase (g + 2) (block Gen.Asm.body_countbodyCase "sse") s =
      run Gen.Asm.body_countbodyCase g (Lentry Gen.Asm.body_countbodyCase)
        { s with r := fun q => if q = Reg.AX then base + len - 16 else s.r q } := by
    asm_step [Gen.Asm.body_countbodyCase, hSI, hBX, alea]
  rw [e, hinv.1, hinv.2, hcor.1]
  refine ⟨rfl, ?_⟩
  intro ld hld
  simp only [hl, List.nil_append] at hld
  exact hcor.2 ld hld

end Asm
