import SC.Proofs.Basic
import SC.Model.Algo
namespace Utf8
open A



section
variable (fold : Nat → Nat)





variable (hidem : ∀ r, fold (fold r) = fold r)
variable (hascii : ∀ b : UInt8, b < 0x80 → fold b.toNat = (lower b).toNat)

include hidem hascii in
theorem cmpRunes_spec (fuel : Nat) (s t : Bytes) (hf : s.length ≤ fuel) :
    cmpRunes fold fuel s t = lexCmp (fdec fold s) (fdec fold t) := by
  induction fuel generalizing s t with
  | zero =>
    have : s = [] := by cases s <;> simp_all
    subst this
    cases t <;> simp [cmpRunes, fdec, dec, decSkip, lexCmp]
  | succ fuel ih =>
    cases s with
    | nil => cases t <;> simp [cmpRunes, fdec, dec, decSkip, lexCmp]
    | cons a s =>
      cases t with
      | nil => simp [cmpRunes, fdec, dec, decSkip, lexCmp]
      | cons b t =>
        have hw := decodeRune_width_pos a s
        have hlen : ((a :: s).drop (decodeRune (a :: s)).2).length ≤ fuel := by
          simp at hf ⊢; omega
        simp only [cmpRunes, fdec]
        rw [dec_cons a s]
        by_cases hb : b < 0x80
        · rw [dec_ascii b t hb]
          simp only [hb, ↓reduceIte, List.map_cons, lexCmp]
          rw [← hascii b hb]
          by_cases h1 : fold (decodeRune (a :: s)).1 = fold b.toNat
          · have : (decodeRune (a :: s)).1 = fold b.toNat ∨ fold (decodeRune (a :: s)).1 = fold b.toNat := Or.inr h1
            rw [if_pos this, if_pos h1]
            exact ih _ _ hlen
          · have : ¬ ((decodeRune (a :: s)).1 = fold b.toNat ∨ fold (decodeRune (a :: s)).1 = fold b.toNat) := by
              intro h; rcases h with h | h
              · apply h1; rw [h, hidem]
              · exact h1 h
            rw [if_neg this, if_neg h1]
            simp only [clamp]
            split <;> split <;> (try split) <;> omega
        · rw [dec_cons b t]
          simp only [hb, ↓reduceIte, List.map_cons, lexCmp]
          by_cases h1 : fold (decodeRune (a :: s)).1 = fold (decodeRune (b :: t)).1
          · have : (decodeRune (a :: s)).1 = fold (decodeRune (b :: t)).1 ∨ fold (decodeRune (a :: s)).1 = fold (decodeRune (b :: t)).1 := Or.inr h1
            rw [if_pos this, if_pos h1]
            exact ih _ _ hlen
          · have : ¬ ((decodeRune (a :: s)).1 = fold (decodeRune (b :: t)).1 ∨ fold (decodeRune (a :: s)).1 = fold (decodeRune (b :: t)).1) := by
              intro h; rcases h with h | h
              · apply h1; rw [h, hidem]
              · exact h1 h
            rw [if_neg this, if_neg h1]
            simp only [clamp]
            split <;> split <;> (try split) <;> omega
end
end Utf8

namespace Utf8
open A
section
variable (fold : Nat → Nat)
variable (hidem : ∀ r, fold (fold r) = fold r)
variable (hascii : ∀ b : UInt8, b < 0x80 → fold b.toNat = (lower b).toNat)

instance instDecForallUInt8 (P : UInt8 → Prop) [DecidablePred P] : Decidable (∀ x, P x) :=
  decidable_of_iff (∀ n : Fin 256, P (UInt8.ofNat n.val)) (by
    constructor
    · intro h x; have := h ⟨x.toNat, x.toNat_lt⟩; simpa using this
    · intro h n; exact h _)

theorem high_bit (x : UInt8) : x &&& 0x80 = 0 → x < 0x80 := by
  revert x; decide +kernel

theorem or_and_high (a b : UInt8) (h : ¬ ((a ||| b) &&& 0x80 ≠ 0)) : a < 0x80 ∧ b < 0x80 := by
  have h0 : (a ||| b) &&& 0x80 = 0 := by simpa using h
  have e : (a ||| b) &&& 0x80 = (a &&& 0x80) ||| (b &&& 0x80) := by
    apply UInt8.eq_of_toBitVec_eq; simp [BitVec.and_or_distrib_right]
  rw [e] at h0
  have h1 : a &&& 0x80 = 0 ∧ b &&& 0x80 = 0 := by
    have := congrArg UInt8.toBitVec h0
    simp only [UInt8.toBitVec_or] at this
    constructor
    · apply UInt8.eq_of_toBitVec_eq
      have := (BitVec.or_eq_zero_iff.mp this).1
      simpa using this
    · apply UInt8.eq_of_toBitVec_eq
      have := (BitVec.or_eq_zero_iff.mp this).2
      simpa using this
  exact ⟨high_bit a h1.1, high_bit b h1.2⟩

theorem lower_inj_toNat (a b : UInt8) : (lower a).toNat = (lower b).toNat ↔ lower a = lower b := by
  constructor
  · intro h; exact UInt8.toNat_inj.mp h
  · intro h; rw [h]

include hidem hascii in
theorem cmpAscii_spec (s t : Bytes) :
    cmpAscii fold s t = lexCmp (fdec fold s) (fdec fold t) := by
  induction s generalizing t with
  | nil => cases t with
    | nil => simp [cmpAscii, fdec, dec, decSkip, lexCmp, clamp]
    | cons b t =>
      simp only [cmpAscii, fdec]
      rw [dec_cons]; simp [lexCmp, clamp, dec, decSkip]
  | cons a s ih =>
    cases t with
    | nil =>
      simp only [cmpAscii, fdec]
      rw [dec_cons]; simp [lexCmp, clamp, dec, decSkip]; omega
    | cons b t =>
      simp only [cmpAscii]
      by_cases hu : (a ||| b) &&& 0x80 ≠ 0
      · rw [if_pos hu]
        exact cmpRunes_spec fold hidem hascii _ _ _ (by simp)
      · rw [if_neg hu]
        have hab := or_and_high a b hu
        have ha : a < 0x80 := hab.1
        have hb : b < 0x80 := hab.2
        simp only [fdec]
        rw [dec_ascii a s ha, dec_ascii b t hb]
        simp only [List.map_cons, lexCmp, hascii a ha, hascii b hb]
        by_cases h1 : lower a = lower b
        · have : a = b ∨ lower a = lower b := Or.inr h1
          rw [if_pos this, if_pos (by rw [h1])]
          exact ih t
        · have : ¬ (a = b ∨ lower a = lower b) := by
            intro h; rcases h with h | h
            · exact h1 (by rw [h])
            · exact h1 h
          have h2 : ¬ (lower a).toNat = (lower b).toNat := fun h => h1 (UInt8.toNat_inj.mp h)
          rw [if_neg this, if_neg h2]
          simp [UInt8.lt_iff_toNat_lt]
end
end Utf8
