import SC.Model.GoSsa
/-!
Symbolic execution of the regenerated go/ssa programs: stepping lemmas for `GoSsa.run` whose left-hand sides need an
explicit frame (so that `simp` steps the function under study and leaves calls into other functions folded), and the
notion `Ret`: "called with these arguments on this heap, the function returns these values, for all sufficiently large fuel".
-/
namespace GoSsa

/-- `fn` called with `args` on heap `h` returns `vs` and leaves heap `h'`, whenever the fuel is at least some bound -/
def Ret (p : Prog) (byt : Bool) (fn : Fn) (args : List Val) (h : Heap) (vs : List Val) (h' : Heap) : Prop :=
  ∃ n, ∀ fuel, n ≤ fuel → run p byt fuel (Frame.entry fn args) h = .ok vs h'

theorem run_step (p : Prog) (byt : Bool) (fuel : Nat) (fn : Fn) (env : Array (List Val)) (cur : Nat) (i : Instr) (rest : List Instr)
    (term : Term) (h : Heap) (hi : ∀ d f a, i ≠ .call d f a) :
    run p byt (fuel + 1) ⟨fn, env, cur, i :: rest, term⟩ h =
      match step byt ⟨fn, env, cur, i :: rest, term⟩ h i with
      | .next fr' h' => run p byt fuel { fr' with code := rest } h'
      | .panic => .panic
      | .stuck m => .stuck m := by
  cases i <;> first | rfl | exact absurd rfl (hi _ _ _)

theorem run_call_fn (p : Prog) (byt : Bool) (fuel : Nat) (fn : Fn) (env : Array (List Val)) (cur d : Nat) (f : String) (args : List Opd)
    (rest : List Instr) (term : Term) (h : Heap) (g : Fn)
    (hb : ∀ a h, builtin byt f a h = none) (hf : p.find? (fun fn => fn.name == f) = some g) :
    run p byt (fuel + 1) ⟨fn, env, cur, .call d f args :: rest, term⟩ h =
      match run p byt fuel (Frame.entry g (args.map (Frame.val ⟨fn, env, cur, .call d f args :: rest, term⟩))) h with
      | .ok vs h' => run p byt fuel { (Frame.setL ⟨fn, env, cur, .call d f args :: rest, term⟩ d vs) with code := rest } h'
      | e => e := by
  simp only [run, hb, hf]
  split <;> simp_all

theorem run_call_ext (p : Prog) (byt : Bool) (fuel : Nat) (fn : Fn) (env : Array (List Val)) (cur d : Nat) (f : String) (args : List Opd)
    (rest : List Instr) (term : Term) (h : Heap) (vs : List Val) (h' : Heap)
    (hb : builtin byt f (args.map (Frame.val ⟨fn, env, cur, .call d f args :: rest, term⟩)) h = some (.ok vs h')) :
    run p byt (fuel + 1) ⟨fn, env, cur, .call d f args :: rest, term⟩ h =
      run p byt fuel { (Frame.setL ⟨fn, env, cur, .call d f args :: rest, term⟩ d vs) with code := rest } h' := by
  simp only [run, hb]

theorem run_jump (p : Prog) (byt : Bool) (fuel : Nat) (fn : Fn) (env : Array (List Val)) (cur b : Nat) (h : Heap) :
    run p byt (fuel + 1) ⟨fn, env, cur, [], .jump b⟩ h = run p byt fuel (Frame.goto ⟨fn, env, cur, [], .jump b⟩ b) h := by
  simp only [run]

theorem run_cond (p : Prog) (byt : Bool) (fuel : Nat) (fn : Fn) (env : Array (List Val)) (cur t e : Nat) (c : Opd) (h : Heap) :
    run p byt (fuel + 1) ⟨fn, env, cur, [], .cond c t e⟩ h =
      match Frame.val ⟨fn, env, cur, [], .cond c t e⟩ c with
      | .bool true => run p byt fuel (Frame.goto ⟨fn, env, cur, [], .cond c t e⟩ t) h
      | .bool false => run p byt fuel (Frame.goto ⟨fn, env, cur, [], .cond c t e⟩ e) h
      | _ => .stuck "if on a non-boolean" := by
  simp only [run]
  split <;> simp_all

theorem run_ret (p : Prog) (byt : Bool) (fuel : Nat) (fn : Fn) (env : Array (List Val)) (cur : Nat) (vs : List Opd) (h : Heap) :
    run p byt (fuel + 1) ⟨fn, env, cur, [], .ret vs⟩ h = .ok (vs.map (Frame.val ⟨fn, env, cur, [], .ret vs⟩)) h := by
  simp only [run]

theorem run_panic (p : Prog) (byt : Bool) (fuel : Nat) (fn : Fn) (env : Array (List Val)) (cur : Nat) (h : Heap) :
    run p byt (fuel + 1) ⟨fn, env, cur, [], .panic⟩ h = .panic := by
  simp only [run]

end GoSsa
