import Lean
open Lean Elab Command

/-- `#audit C01` lists every theorem of namespace `C01` with the axioms it depends on
    (`THEOREM <name> AXIOMS [..]`) and every `Prop`-valued definition whose name ends in `_open`
    (`OPEN <name>`): a full-strength statement kept visible but not proved. -/
elab "#audit " ns:ident* : command => do
  let env ← getEnv
  let prefixes := ns.map (·.getId)
  let mut rows : Array (Name × String) := #[]
  let mut opens : Array Name := #[]
  for (n, ci) in env.constants.toList do
    if prefixes.any (fun p => p.isPrefixOf n) then
      if n.isInternal then continue
      match ci with
      | .thmInfo _ =>
        let axs ← Lean.collectAxioms n
        rows := rows.push (n, toString (axs.qsort Name.lt))
      | .defnInfo _ =>
        if n.toString.endsWith "_open" then opens := opens.push n
      | _ => pure ()
  for (n, a) in rows.qsort (fun x y => Name.lt x.1 y.1) do
    logInfo m!"THEOREM {n} AXIOMS {a}"
  for n in opens.qsort Name.lt do
    logInfo m!"OPEN {n}"
