import SC.Properties.C04
import SC.Proofs.StdEqualFold
/-!
# C02 — EqualFold is observationally identical to strings.EqualFold / bytes.EqualFold

`A.EqualFold` (both packages) is proved equal, for **all** byte strings, to "the decoded rune
sequences have the same length and are pointwise in the same `unicode.SimpleFold` orbit"
(`orbMin` is regenerated from the toolchain's `unicode` package on every run) — which is what
`strings.EqualFold` computes.  That the real `strings.EqualFold`/`bytes.EqualFold` return the same
as the real `strcase.EqualFold`/`bytcase.EqualFold` is additionally compared on every generated
pair by the correspondence run (the standard library is the independent oracle there).
-/
namespace C02
open Utf8 Fold

/-- code-point sequence of `s` mapped to orbit representatives of the toolchain's `unicode` package -/
def orbs (s : Bytes) : List Nat := (dec s).map (fun p => orbMin p.1)

theorem fruns_eq_iff_orbs_eq (s t : Bytes) : S.fruns s = S.fruns t ↔ orbs s = orbs t := by
  unfold S.fruns fdec orbs S.fold
  generalize dec s = a
  generalize dec t = b
  induction a generalizing b with
  | nil => cases b <;> simp
  | cons p a ih =>
    cases b with
    | nil => simp
    | cons q b =>
      simp only [List.map_cons, List.cons.injEq]
      rw [ih b, caseFold_eq_iff_orbMin_eq]

/-- `EqualFold` of the algorithm model = orbit-wise equality of the decoded runes (all byte strings, both packages) -/
theorem equalFold_iff_orbits (cfg : A.Cfg) (s t : Bytes) : A.EqualFold cfg s t = true ↔ orbs s = orbs t := by
  rw [← (C04.compare_zero_iff cfg s t).1, (C04.compare_zero_iff cfg s t).2, fruns_eq_iff_orbs_eq]

theorem equalFold_refines (cfg : A.Cfg) (s t : Bytes) : A.EqualFold cfg s t = S.equalFold s t := by
  have h1 := C04.compare_zero_iff cfg s t
  unfold S.equalFold
  cases h : A.EqualFold cfg s t
  · symm; apply beq_false_of_ne; intro he
    have := h1.1.mp (h1.2.mpr he); rw [h] at this; cases this
  · symm; exact beq_iff_eq.mpr (h1.2.mp (h1.1.mpr h))

/-- **the property itself, on models of both sides**: the transliteration of `strings.EqualFold`
    (`Std.equalFoldS`: ASCII fast path, rune loop, orbit walk over the toolchain's `unicode.SimpleFold`) and of
    `bytes.EqualFold` (`Std.equalFoldB`) terminate and return exactly what `strcase.EqualFold` / `bytcase.EqualFold`
    return, for every pair of byte strings.  (`Std` is tied to the real standard library by the correspondence run.) -/
theorem equalFold_eq_std (cfg : A.Cfg) (s t : Bytes) :
    Std.equalFoldS s t = some (A.EqualFold { cfg with pkg := .str } s t) ∧
    Std.equalFoldB s t = some (A.EqualFold { cfg with pkg := .byt } s t) := by
  rw [equalFold_refines, equalFold_refines]
  exact ⟨Std.equalFoldS_eq s t, Std.equalFoldB_eq s t⟩

/-- the orbit walk of `strings.EqualFold` decides fold-equality of two code points (all naturals) -/
theorem std_rune_comparison (sr tr : Nat) : Std.runeEq sr tr = some (caseFold sr == caseFold tr) := Std.runeEq_spec sr tr

/-- strings of different code-point counts are never equal -/
theorem equalFold_length (cfg : A.Cfg) (s t : Bytes) (h : A.EqualFold cfg s t = true) :
    (dec s).length = (dec t).length := by
  have := (equalFold_iff_orbits cfg s t).mp h
  simpa [orbs] using congrArg List.length this

/-- any ill-formed byte decodes as (U+FFFD, 1) … -/
theorem bad_byte_is_fffd (b : UInt8) (h : 0xF5 ≤ b ∨ (0x80 ≤ b ∧ b < 0xC2)) : dec [b] = [(0xFFFD, 1)] := by
  revert h; revert b; decide +kernel

/-- … hence any two ill-formed bytes, and an ill-formed byte and an encoded U+FFFD, compare equal -/
example : A.EqualFold {} [0xFF] [0x80] = true ∧ A.EqualFold {pkg := .byt} [0xFF] [0xEF, 0xBF, 0xBD] = true ∧
    A.EqualFold {} [0xC3] [0xEF, 0xBF, 0xBD] = true := by decide +kernel
example : A.EqualFold {} [0x4B] [0xE2, 0x84, 0xAA] = true ∧ A.EqualFold {} [0x61, 0x62] [0x61] = false := by decide +kernel
end C02
