import SC.Proofs.Sched
import SC.Gen.SsaFacts
import SC.Gen.CallGraph
import SC.Proofs.SrcStatic
/-!
# C18 — pure, deterministic and safe for concurrent use; arguments never modified

Two parts.

1. **Static facts, regenerated from the source on every run** (`harness/ssafacts`, go/ssa over the four
   product packages as the installed toolchain compiles them): outside the synthetic package
   initialisers every `Store` and every `copy` destination is rooted at a function-local variable
   (`ssa.Alloc`), there is no `MapUpdate`, `Send`, `go`, `defer`, closure or dynamic call, and every call
   leaving the product packages goes to a function on the read-only list (`utf8.EncodeRune` only with
   a function-local destination).  Hence no exported function writes through an argument, to a
   package-level variable (in particular the linknamed `MaxBruteForce`) or to any shared state.
   The compiler's own escape analysis reports `leaking param: s to result` for exactly the Trim/Cut
   family: their results alias the first argument.
2. **The schedule theorem**: in a system whose calls are functions of an immutable shared memory,
   every interleaving gives every call the result it has when run alone.
-/
namespace C18
open Gen.Ssa

/-- external functions the product packages may call: pure decoders / searches of the standard library -/
def readOnly : List String :=
  ["unicode/utf8.DecodeRuneInString", "unicode/utf8.DecodeRune", "unicode/utf8.DecodeLastRuneInString",
   "unicode/utf8.DecodeLastRune", "unicode/utf8.RuneLen", "unicode/utf8.ValidRune", "unicode/utf8.RuneCountInString",
   "unicode/utf8.RuneCount", "unicode/utf8.RuneStart", "unicode/utf8.FullRune", "unicode/utf8.FullRuneInString",
   "unicode/utf8.ValidString", "unicode/utf8.Valid",
   "strings.Index", "strings.IndexByte", "strings.LastIndexByte", "strings.LastIndex", "strings.IndexRune",
   "strings.Count", "strings.HasPrefix", "strings.HasSuffix", "strings.EqualFold",
   "bytes.Index", "bytes.IndexByte", "bytes.LastIndexByte", "bytes.LastIndex", "bytes.IndexRune",
   "bytes.Count", "bytes.HasPrefix", "bytes.HasSuffix", "bytes.EqualFold", "bytes.Equal",
   "math/bits.TrailingZeros64", "math/bits.OnesCount64", "math/bits.Len64",
   "unicode/utf8.EncodeRune dst=local", "unicode/utf8.EncodeRune dst=heapalloc"]

/-- roots of a store address that are function-local (`ssa.Alloc`, whether or not go/ssa's own
    conservative analysis calls it "heap") -/
def localRoot (d : String) : Bool := d == "local" || d == "heapalloc" || d == "heapalloc|local" || d == "local|heapalloc"

def factOK (f : String × String × String × Nat) : Bool :=
  let kind := f.2.1
  let detail := f.2.2.1
  if kind == "store" || kind == "copy" then localRoot detail
  else if kind == "extcall" then readOnly.contains detail
  else if kind == "heapalloc" then true            -- go/ssa's address-taken locals; the compiler's decision is checked in C05
  else if kind == "makeinterface" then f.1 == "github.com/charlievieth/strcase/internal/tables.init#1"  -- `panic(string)` at start-up
  else if kind == "init:store" || kind == "init:extcall" then true   -- package initialisation, before any call
  else false   -- mapupdate, send, go, defer, makeslice, makemap, makechan, makeclosure, append, convert, dyncall, builtin …

/-- no exported or internal function writes anything but its own locals, starts a goroutine, defers,
    builds a closure, calls dynamically, or calls outside the read-only list -/
theorem no_shared_writes : facts.all factOK = true ∧ 0 < functions ∧ 0 < instructions := by decide +kernel

/-- results of the Trim/Cut family alias the first argument (the compiler's escape analysis):
    three functions per package, five result values each -/
theorem results_alias_argument : Gen.CG.leaks.length = 12 := by decide

/-- every schedule yields, for every executed call, the result of running that call alone -/
theorem schedule_independent {M R : Type} (mem : M) (prog : Nat → List (M → R)) (sched : List Nat) (pc : Nat → Nat) :
    ∀ e ∈ Sched.run mem prog sched pc, ∃ call, (prog e.1)[e.2.1]? = some call ∧ e.2.2 = call mem :=
  Sched.run_result mem prog sched pc

/-- the same call of the same thread returns the same result under any two schedules -/
theorem deterministic {M R : Type} (mem : M) (prog : Nat → List (M → R)) (s1 s2 : List Nat) (pc1 pc2 : Nat → Nat)
    (e1 e2 : Nat × Nat × R) (h1 : e1 ∈ Sched.run mem prog s1 pc1) (h2 : e2 ∈ Sched.run mem prog s2 pc2)
    (ht : e1.1 = e2.1) (hk : e1.2.1 = e2.2.1) : e1.2.2 = e2.2.2 :=
  Sched.run_deterministic mem prog s1 s2 pc1 pc2 e1 e2 h1 h2 ht hk
/-- **Source level** (`Gen.Src.str` / `Gen.Src.byt`: the go/ssa form of `strcase.go` / `bytcase/bytcase.go`, regenerated instruction by
    instruction on every run; the checker `GoSsa.Prog.sound` is a Lean function evaluated by the kernel over those literals): in every
    function every `store` goes through a pointer into an array or variable the function allocated itself (address chased through
    `indexAddr`, `slice`, φ), `utf8.EncodeRune` only ever receives such a local array, every call goes to a function of the same package or
    to one of the read-only external functions the interpreter gives a meaning to, and no instruction lies outside the modelled subset
    (no `go`, `defer`, map update, send, closure, dynamic call, `append`, `make`, … — the translator renders those as `.stuck`, which
    `Fn.wf` rejects).  In the interpreter a store through any other pointer is `Res.stuck`, and strings / argument slices are immutable
    values: the model cannot express a write to an argument or to a package-level table. -/
theorem source_stores_local : GoSsa.Prog.sound Gen.Src.str = true ∧ GoSsa.Prog.sound Gen.Src.byt = true :=
  ⟨GoSsa.str_sound, GoSsa.byt_sound⟩
end C18
