import SC.Proofs.SpecIndex
import SC.Proofs.RIndexAny6
/-!
# C11 — IndexAny/LastIndexAny/ContainsAny implement case-insensitive set membership
-/
namespace C11
open Utf8 Spec

/-- always −1 for empty `chars` -/
theorem indexAny_empty (s : Bytes) : S.indexAny s [] = -1 ∧ S.lastIndexAny s [] = -1 := by
  have e : S.fruns [] = [] := by simp [S.fruns, fdec, dec_nil]
  constructor
  · unfold S.indexAny; simp only [e]
    cases hf : (S.fruns s).findIdx? (fun x => ([] : List Nat).contains x) with
    | none => rfl
    | some k => have := (List.findIdx?_eq_some_iff_getElem.mp hf).2.1; simp at this
  · unfold S.lastIndexAny; simp only [e]
    cases hf : (S.fruns s).reverse.findIdx? (fun x => ([] : List Nat).contains x) with
    | none => rfl
    | some k => have := (List.findIdx?_eq_some_iff_getElem.mp hf).2.1; simp at this

/-- IndexAny is the offset of the first code point of `s` fold-equal to some code point of `chars` -/
theorem indexAny_first (s cs : Bytes) :
    (S.indexAny s cs = -1 ∧ ∀ x ∈ S.fruns s, x ∉ S.fruns cs) ∨
    (∃ k, ∃ hk : k < (S.fruns s).length, S.indexAny s cs = offAt s k ∧ (S.fruns s)[k] ∈ S.fruns cs ∧
        ∀ j, ∀ hj : j < k, (S.fruns s)[j]'(by omega) ∉ S.fruns cs) := by
  unfold S.indexAny
  simp only []
  cases hf : (S.fruns s).findIdx? (fun x => (S.fruns cs).contains x) with
  | none =>
    left; refine ⟨rfl, ?_⟩
    intro x hx
    have := List.findIdx?_eq_none_iff.mp hf x hx
    simpa using this
  | some k =>
    right
    obtain ⟨hk, hp, hmin⟩ := List.findIdx?_eq_some_iff_getElem.mp hf
    refine ⟨k, hk, rfl, by simpa using hp, ?_⟩
    intro j hj
    have := hmin j hj
    simpa using this

theorem containsAny_iff (s cs : Bytes) : S.containsAny s cs = true ↔ 0 ≤ S.indexAny s cs := by
  simp [S.containsAny]

/-- LastIndexAny is the offset of the last code point of `s` fold-equal to some code point of `chars` -/
theorem lastIndexAny_last (s cs : Bytes) : A.IsLastBy (A.anyP cs) s (S.lastIndexAny s cs) := A.S_lastIndexAny_lastBy s cs

/-- refinement: the algorithm model of `IndexAny` (single-char path, ASCII bit-set with the K/k/S/s escape hatch guarded
    by the non-ASCII scan of `s`, per-char strategy, per-haystack-rune strategy) equals the specification for all byte
    strings, in both packages and for both `NativeIndex` settings — in particular independently of the two length
    thresholds that select the strategy -/
theorem indexAny_refines (cfg : A.Cfg) (s chars : Bytes) : A.IndexAny cfg s chars = S.indexAny s chars := A.IndexAny_eq cfg s chars
theorem lastIndexAny_refines (cfg : A.Cfg) (s chars : Bytes) : A.LastIndexAny cfg s chars = S.lastIndexAny s chars :=
  A.LastIndexAny_eq cfg s chars
theorem containsAny_refines (cfg : A.Cfg) (s chars : Bytes) : A.ContainsAny cfg s chars = S.containsAny s chars :=
  A.ContainsAny_eq cfg s chars

/-- the ASCII bit-set shortcut is sound: whenever `makeASCIISet` accepts, scanning the bytes of `s` against the set finds
    the first code point of `s` in the folded set of `chars` -/
theorem asciiSet_sound (s chars : Bytes) (hok : (A.makeASCIISet s chars).2 = true) :
    A.IsFirstBy (A.anyP chars) s (S.firstAt (fun x => (A.makeASCIISet s chars).1 (x.headD 0)) s 0, 1) :=
  A.anySet_firstBy s chars hok

/-- fold partners across the ASCII boundary, for haystacks on both sides of the `len(s) > 8` threshold -/
example : A.IndexAny {} [0x78, 0xE2, 0x84, 0xAA] [0x7A, 0x6B] = 1 ∧
    A.IndexAny {} [0x78, 0x78, 0x78, 0x78, 0x78, 0x78, 0x78, 0xE2, 0x84, 0xAA] [0x7A, 0x6B] = 7 ∧
    A.LastIndexAny {pkg := .byt} [0x53, 0x78, 0xC5, 0xBF, 0x78] [0x73, 0x74] = 2 := by decide +kernel

example : S.indexAny [0x78, 0xE2, 0x84, 0xAA] [0x7A, 0x6B] = 1 ∧ S.lastIndexAny [0x53, 0x78, 0xC5, 0xBF, 0x78] [0x73] = 2 ∧
    S.indexAny [0x78, 0x6B] [0xE2, 0x84, 0xAA] = 1 := by decide +kernel
end C11
