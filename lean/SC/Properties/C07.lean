import SC.Properties.C04
import SC.Properties.C09
import SC.Proofs.RIndex
import SC.Proofs.RCountByte
import SC.Proofs.RLastIndex
import SC.Proofs.RIndexAny6
import SC.Proofs.RByteLevel
import SC.Proofs.SrcStatic
/-!
# C07 — strcase and bytcase are the same function on the same bytes

`A` is parameterised by `Cfg.pkg`; the functions whose text is shared between the two packages are
equal by definition, the others get an equivalence theorem each.  Every op of every generated family
is also executed on both real packages and compared (`parity` check of the correspondence run),
and the exported name sets are re-extracted and compared.
-/
namespace C07
open Utf8 Fold

def str (cfg : A.Cfg) : A.Cfg := { cfg with pkg := .str }
def byt (cfg : A.Cfg) : A.Cfg := { cfg with pkg := .byt }

theorem compare_parity (cfg : A.Cfg) (s t : Bytes) : A.Compare (str cfg) s t = A.Compare (byt cfg) s t := by
  rw [C04.compare_refines, C04.compare_refines]

theorem equalFold_parity (cfg : A.Cfg) (s t : Bytes) : A.EqualFold (str cfg) s t = A.EqualFold (byt cfg) s t := by
  unfold A.EqualFold; rw [compare_parity]

/-- functions that do not look at `Cfg.pkg` at all -/
theorem indexByte_parity (cfg : A.Cfg) (s : Bytes) (c : UInt8) :
    A.LastIndexByte (str cfg) s c = A.LastIndexByte (byt cfg) s c ∧
    A.IndexByteASCII (str cfg) s c = A.IndexByteASCII (byt cfg) s c ∧
    A.IndexNonASCII (str cfg) s = A.IndexNonASCII (byt cfg) s := ⟨rfl, rfl, rfl⟩

theorem indexByte_parity2 (cfg : A.Cfg) (s : Bytes) (c : UInt8) :
    A.IndexByte (str cfg) s c = A.IndexByte (byt cfg) s c := by
  rw [A.IndexByte_eq, A.IndexByte_eq]

/-- prefix / suffix family: both packages refine the same specification -/
theorem affix_parity (cfg : A.Cfg) (s p : Bytes) :
    A.HasPrefix (str cfg) s p = A.HasPrefix (byt cfg) s p ∧ A.TrimPrefix (str cfg) s p = A.TrimPrefix (byt cfg) s p ∧
    A.CutPrefix (str cfg) s p = A.CutPrefix (byt cfg) s p ∧ A.HasSuffix (str cfg) s p = A.HasSuffix (byt cfg) s p ∧
    A.TrimSuffix (str cfg) s p = A.TrimSuffix (byt cfg) s p ∧ A.CutSuffix (str cfg) s p = A.CutSuffix (byt cfg) s p := by
  simp only [C09.hasPrefix_refines, C09.trimPrefix_refines, C09.cutPrefix_refines, C09.hasSuffix_refines,
    C09.trimSuffix_refines, C09.cutSuffix_refines, and_self]

/-- Index / Contains / IndexRune / ContainsRune: both packages refine the same specification -/
theorem index_parity (cfg : A.Cfg) (s sub : Bytes) (r : Int) :
    A.Index (str cfg) s sub = A.Index (byt cfg) s sub ∧ A.Contains (str cfg) s sub = A.Contains (byt cfg) s sub ∧
    A.IndexRune (str cfg) s r = A.IndexRune (byt cfg) s r ∧ A.ContainsRune (str cfg) s r = A.ContainsRune (byt cfg) s r := by
  simp only [A.Index_eq, A.Contains_eq, A.IndexRune_eq, A.ContainsRune_eq, and_self]

/-- Count / Cut: both packages refine the same specification -/
theorem count_cut_parity (cfg : A.Cfg) (s sub : Bytes) :
    A.Count (str cfg) s sub = A.Count (byt cfg) s sub ∧ A.Cut (str cfg) s sub = A.Cut (byt cfg) s sub := by
  simp only [A.Count_eq, A.Cut_eq, and_self]

/-- LastIndex: both packages refine the same specification (the pinned tree differed here: finding D7) -/
theorem lastIndex_parity (cfg : A.Cfg) (s sub : Bytes) : A.LastIndex (str cfg) s sub = A.LastIndex (byt cfg) s sub := by
  rw [A.LastIndex_eq, A.LastIndex_eq]

/-- IndexAny / LastIndexAny / ContainsAny: both packages refine the same specification -/
theorem indexAny_parity (cfg : A.Cfg) (s chars : Bytes) :
    A.IndexAny (str cfg) s chars = A.IndexAny (byt cfg) s chars ∧
    A.LastIndexAny (str cfg) s chars = A.LastIndexAny (byt cfg) s chars ∧
    A.ContainsAny (str cfg) s chars = A.ContainsAny (byt cfg) s chars := by
  simp only [A.IndexAny_eq, A.LastIndexAny_eq, A.ContainsAny_eq, and_self]

example : A.Compare (str {}) [0xFF, 0x41] [0xEF, 0xBF, 0xBD, 0x61] = 0 := by decide +kernel
/-- source level: the regenerated programs of the two packages define the same function names (exported and unexported) -/
theorem source_same_functions :
    (Gen.Src.str.all fun f => Gen.Src.byt.any fun g => g.name == f.name) = true ∧
    (Gen.Src.byt.all fun f => Gen.Src.str.any fun g => g.name == f.name) = true := GoSsa.same_functions
end C07
