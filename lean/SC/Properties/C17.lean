import SC.Properties.C08
import SC.Properties.C01
import SC.Properties.C02
import SC.Properties.C09
import SC.Properties.C10
import SC.Properties.C11
import SC.Properties.C12
import SC.Proofs.Identities
/-!
# C17 — the API agrees with itself on every input

Identities between the specification functions, for **all** byte strings; the real results of all
functions on one argument tuple are additionally checked against the same identities, oracle-free,
by the correspondence run (`identity` group check).
-/
namespace C17
open Utf8 Spec

theorem contains_index_lastIndex (s t : Bytes) :
    (S.contains s t = true ↔ 0 ≤ S.index s t) ∧ (0 ≤ S.index s t ↔ 0 ≤ S.lastIndex s t) ∧
    (0 ≤ S.index s t → S.index s t ≤ S.lastIndex s t) :=
  ⟨C01.contains_iff s t, (C08.index_le_lastIndex s t).1, (C08.index_le_lastIndex s t).2⟩

/-- HasPrefix ⇔ Index = 0 -/
theorem hasPrefix_iff_index_zero (s t : Bytes) : S.hasPrefix s t = true ↔ S.index s t = 0 := by
  unfold S.hasPrefix S.prefixLen S.index S.indexK
  have h := Spec.hasPrefix_iff_index_zero (S.fruns s) (S.fruns t)
  by_cases hp : (S.fruns t).isPrefixOf (S.fruns s) = true
  · have := h.mp ((isPrefixOf_iff _ _).mp hp)
    simp [hp, this, offAt_zero]
  · have hn : ¬ findSub (S.fruns s) (S.fruns t) = some 0 := fun h0 => hp ((isPrefixOf_iff _ _).mpr (h.mpr h0))
    simp only [hp, Bool.false_eq_true, if_false, Option.isSome_none, false_iff]
    cases hf : findSub (S.fruns s) (S.fruns t) with
    | none => simp
    | some k =>
      cases k with
      | zero => exact absurd hf hn
      | succ k =>
        have hk := ((findSub_some_iff _ _ _).mp hf).2.1
        simp only [S.fruns, fdec_length] at hk
        have := offAt_lt_succ s k (by omega)
        simp; omega

/-- CutPrefix-found ⇔ HasPrefix; TrimPrefix shortens `s` or the prefix is empty -/
theorem cutPrefix_found (s t : Bytes) : (S.cutPrefix s t).2 = S.hasPrefix s t := by
  unfold S.cutPrefix S.hasPrefix
  cases S.prefixLen s t <;> rfl
theorem cutSuffix_found (s t : Bytes) : (S.cutSuffix s t).2 = S.hasSuffix s t ∧ (S.cutSuffix s t).1 = S.trimSuffix s t := by
  unfold S.cutSuffix S.hasSuffix S.trimSuffix
  cases S.suffixStart s t <;> exact ⟨rfl, rfl⟩

/-- EqualFold ⇔ Compare = 0 -/
theorem equalFold_iff_compare (s t : Bytes) : S.equalFold s t = true ↔ S.compare s t = 0 := by
  unfold S.equalFold S.compare
  rw [lexCmp_eq_zero]; exact beq_iff_eq

/-- ContainsX = (IndexX ≥ 0) -/
theorem containsX (s t : Bytes) (r : Int) :
    (S.containsAny s t = true ↔ S.indexAny s t ≥ 0) ∧ (S.containsRune s r = true ↔ S.indexRune s r ≥ 0) ∧
    (S.containsNonASCII s = true ↔ S.indexNonASCII s ≥ 0) := by
  simp [S.containsAny, S.containsRune, S.containsNonASCII]
/-- Contains == (Count > 0) == Cut-found -/
theorem count_cut_contains (s t : Bytes) :
    (0 < S.count s t ↔ S.contains s t = true) ∧ (S.cut s t).2.2 = S.contains s t :=
  ⟨A.count_pos_iff s t, A.cut_found_iff s t⟩

/-- HasSuffix(s,t) == (LastIndex(s,t) = i ≥ 0 and EqualFold(s[i:], t)), and TrimSuffix/CutSuffix cut at that `i` -/
theorem hasSuffix_iff_lastIndex (s t : Bytes) :
    (S.hasSuffix s t = true ↔ ∃ i : Nat, S.lastIndex s t = (i : Int) ∧ S.equalFold (s.drop i) t = true) ∧
    (∀ i : Nat, S.lastIndex s t = (i : Int) → S.equalFold (s.drop i) t = true →
        S.trimSuffix s t = (0, i) ∧ S.cutSuffix s t = ((0, i), true)) := by
  refine ⟨A.hasSuffix_iff_lastIndex s t, ?_⟩
  intro i h1 h2
  have := (A.suffixStart_iff s t i).mpr ⟨h1, h2⟩
  simp [S.trimSuffix, S.cutSuffix, this]

/-- HasPrefix == (TrimPrefix shortened `s` or `t` is empty) -/
theorem hasPrefix_iff_trim (s t : Bytes) : S.hasPrefix s t = true ↔ ((S.trimPrefix s t).2 < s.length ∨ t = []) :=
  A.hasPrefix_iff_trim s t

/-- EqualFold == (HasPrefix && HasSuffix with equal code-point counts) -/
theorem equalFold_iff_affixes (s t : Bytes) :
    S.equalFold s t = true ↔ (S.hasPrefix s t = true ∧ S.hasSuffix s t = true ∧ S.nrunes s = S.nrunes t) :=
  A.equalFold_iff_affixes s t

/-- IndexRune(s,r) == Index(s,string(r)) == IndexAny(s,string(r)) for valid `r`; IndexByte(s,c) == Index(s,string(c)) for c < 0x80 -/
theorem single_char_searches (s : Bytes) (r : Int) (hv : S.validRuneI r = true) (c : UInt8) (hc : c < 0x80) :
    S.indexRune s r = S.index s (encode r.toNat) ∧ S.indexRune s r = S.indexAny s (encode r.toNat) ∧
    S.indexByte s c = S.index s [c] :=
  ⟨(A.indexRune_eq_index_encode s r hv).1, (A.indexRune_eq_index_encode s r hv).2, A.indexByte_eq_index s c hc⟩

/-- the identities that relate *different cores*, for the algorithm model (both packages, every backend setting) -/
theorem model_identities2 (cfg : A.Cfg) (s t : Bytes) (r : Int) (hv : S.validRuneI r = true) (c : UInt8) (hc : c < 0x80) :
    ((A.Contains cfg s t = true) ↔ 0 ≤ A.LastIndex cfg s t) ∧
    (A.Contains cfg s t = true ↔ 0 < A.Count cfg s t) ∧
    (A.Cut cfg s t).map (·.2.2) = some (A.Contains cfg s t) ∧
    (0 ≤ A.Index cfg s t → A.Index cfg s t ≤ A.LastIndex cfg s t) ∧
    (A.HasSuffix cfg s t = true ↔ ∃ i : Nat, A.LastIndex cfg s t = (i : Int) ∧ A.EqualFold cfg (s.drop i) t = true) ∧
    A.IndexRune cfg s r = A.Index cfg s (encode r.toNat) ∧ A.IndexRune cfg s r = A.IndexAny cfg s (encode r.toNat) ∧
    A.IndexByte cfg s c = A.Index cfg s [c] ∧
    (A.ContainsAny cfg s t = true ↔ 0 ≤ A.IndexAny cfg s t) ∧ (A.ContainsRune cfg s r = true ↔ 0 ≤ A.IndexRune cfg s r) := by
  have hEF : ∀ x y, A.EqualFold cfg x y = S.equalFold x y := fun x y => C02.equalFold_refines cfg x y
  simp only [C01.contains_refines, C08.lastIndex_refines, C12.count_refines, C12.cut_refines, C01.index_refines,
    C09.hasSuffix_refines, C10.indexRune_refines, C11.indexAny_refines, C10.indexByte_refines, hEF,
    C11.containsAny_refines, C10.containsRune_refines, Option.map_some]
  refine ⟨?_, ?_, ?_, ?_, ?_, ?_, ?_, ?_, ?_, ?_⟩
  · rw [C01.contains_iff]; exact (C08.index_le_lastIndex s t).1
  · rw [← A.count_pos_iff]; exact ⟨fun h => by exact_mod_cast h, fun h => by exact_mod_cast h⟩
  · rw [A.cut_found_iff]
  · exact (C08.index_le_lastIndex s t).2
  · exact A.hasSuffix_iff_lastIndex s t
  · exact (A.indexRune_eq_index_encode s r hv).1
  · exact (A.indexRune_eq_index_encode s r hv).2
  · exact A.indexByte_eq_index s c hc
  · simp [S.containsAny]
  · simp [S.containsRune]

/-- the same identities hold of the algorithm model (through the refinement theorems) -/
theorem model_identities (cfg : A.Cfg) (s t : Bytes) :
    (A.Contains cfg s t = true ↔ 0 ≤ A.Index cfg s t) ∧ (A.HasPrefix cfg s t = true ↔ A.Index cfg s t = 0) ∧
    (A.CutPrefix cfg s t).2 = A.HasPrefix cfg s t ∧ (A.CutSuffix cfg s t).2 = A.HasSuffix cfg s t ∧
    (A.CutSuffix cfg s t).1 = A.TrimSuffix cfg s t ∧ (A.EqualFold cfg s t = true ↔ A.Compare cfg s t = 0) := by
  rw [C01.contains_refines, C01.index_refines, C09.hasPrefix_refines, C09.cutPrefix_refines, C09.cutSuffix_refines,
    C09.hasSuffix_refines, C09.trimSuffix_refines]
  exact ⟨C01.contains_iff s t, hasPrefix_iff_index_zero s t, cutPrefix_found s t, (cutSuffix_found s t).1, (cutSuffix_found s t).2,
    by simp [A.EqualFold]⟩

end C17
