import SC.Properties.C08
import SC.Properties.C01
import SC.Properties.C02
import SC.Properties.C09
import SC.Properties.C10
import SC.Properties.C11
import SC.Properties.C12
import SC.Proofs.Identities
import SC.Proofs.SrcFuns
import SC.Proofs.SrcFunsB
/-!
# C17 — the API agrees with itself on every input

Identities between the specification functions, for **all** byte strings; the real results of all
functions on one argument tuple are additionally checked against the same identities, oracle-free,
by the correspondence run (`identity` group check).
-/
namespace C17
open Utf8 Spec

theorem contains_index_lastIndex (s t : Bytes) :
    (S.contains s t = true ↔ 0 ≤ S.index s t) ∧ (0 ≤ S.index s t ↔ 0 ≤ S.lastIndex s t) ∧
    (0 ≤ S.index s t → S.index s t ≤ S.lastIndex s t) :=
  ⟨C01.contains_iff s t, (C08.index_le_lastIndex s t).1, (C08.index_le_lastIndex s t).2⟩

/-- HasPrefix ⇔ Index = 0 -/
theorem hasPrefix_iff_index_zero (s t : Bytes) : S.hasPrefix s t = true ↔ S.index s t = 0 := by
  unfold S.hasPrefix S.prefixLen S.index S.indexK
  have h := Spec.hasPrefix_iff_index_zero (S.fruns s) (S.fruns t)
  by_cases hp : (S.fruns t).isPrefixOf (S.fruns s) = true
  · have := h.mp ((isPrefixOf_iff _ _).mp hp)
    simp [hp, this, offAt_zero]
  · have hn : ¬ findSub (S.fruns s) (S.fruns t) = some 0 := fun h0 => hp ((isPrefixOf_iff _ _).mpr (h.mpr h0))
    simp only [hp, Bool.false_eq_true, if_false, Option.isSome_none, false_iff]
    cases hf : findSub (S.fruns s) (S.fruns t) with
    | none => simp
    | some k =>
      cases k with
      | zero => exact absurd hf hn
      | succ k =>
        have hk := ((findSub_some_iff _ _ _).mp hf).2.1
        simp only [S.fruns, fdec_length] at hk
        have := offAt_lt_succ s k (by omega)
        simp; omega

/-- CutPrefix-found ⇔ HasPrefix; TrimPrefix shortens `s` or the prefix is empty -/
theorem cutPrefix_found (s t : Bytes) : (S.cutPrefix s t).2 = S.hasPrefix s t := by
  unfold S.cutPrefix S.hasPrefix
  cases S.prefixLen s t <;> rfl
theorem cutSuffix_found (s t : Bytes) : (S.cutSuffix s t).2 = S.hasSuffix s t ∧ (S.cutSuffix s t).1 = S.trimSuffix s t := by
  unfold S.cutSuffix S.hasSuffix S.trimSuffix
  cases S.suffixStart s t <;> exact ⟨rfl, rfl⟩

/-- EqualFold ⇔ Compare = 0 -/
theorem equalFold_iff_compare (s t : Bytes) : S.equalFold s t = true ↔ S.compare s t = 0 := by
  unfold S.equalFold S.compare
  rw [lexCmp_eq_zero]; exact beq_iff_eq

/-- ContainsX = (IndexX ≥ 0) -/
theorem containsX (s t : Bytes) (r : Int) :
    (S.containsAny s t = true ↔ S.indexAny s t ≥ 0) ∧ (S.containsRune s r = true ↔ S.indexRune s r ≥ 0) ∧
    (S.containsNonASCII s = true ↔ S.indexNonASCII s ≥ 0) := by
  simp [S.containsAny, S.containsRune, S.containsNonASCII]
/-- Contains == (Count > 0) == Cut-found -/
theorem count_cut_contains (s t : Bytes) :
    (0 < S.count s t ↔ S.contains s t = true) ∧ (S.cut s t).2.2 = S.contains s t :=
  ⟨A.count_pos_iff s t, A.cut_found_iff s t⟩

/-- HasSuffix(s,t) == (LastIndex(s,t) = i ≥ 0 and EqualFold(s[i:], t)), and TrimSuffix/CutSuffix cut at that `i` -/
theorem hasSuffix_iff_lastIndex (s t : Bytes) :
    (S.hasSuffix s t = true ↔ ∃ i : Nat, S.lastIndex s t = (i : Int) ∧ S.equalFold (s.drop i) t = true) ∧
    (∀ i : Nat, S.lastIndex s t = (i : Int) → S.equalFold (s.drop i) t = true →
        S.trimSuffix s t = (0, i) ∧ S.cutSuffix s t = ((0, i), true)) := by
  refine ⟨A.hasSuffix_iff_lastIndex s t, ?_⟩
  intro i h1 h2
  have := (A.suffixStart_iff s t i).mpr ⟨h1, h2⟩
  simp [S.trimSuffix, S.cutSuffix, this]

/-- HasPrefix == (TrimPrefix shortened `s` or `t` is empty) -/
theorem hasPrefix_iff_trim (s t : Bytes) : S.hasPrefix s t = true ↔ ((S.trimPrefix s t).2 < s.length ∨ t = []) :=
  A.hasPrefix_iff_trim s t

/-- EqualFold == (HasPrefix && HasSuffix with equal code-point counts) -/
theorem equalFold_iff_affixes (s t : Bytes) :
    S.equalFold s t = true ↔ (S.hasPrefix s t = true ∧ S.hasSuffix s t = true ∧ S.nrunes s = S.nrunes t) :=
  A.equalFold_iff_affixes s t

/-- IndexRune(s,r) == Index(s,string(r)) == IndexAny(s,string(r)) for valid `r`; IndexByte(s,c) == Index(s,string(c)) for c < 0x80 -/
theorem single_char_searches (s : Bytes) (r : Int) (hv : S.validRuneI r = true) (c : UInt8) (hc : c < 0x80) :
    S.indexRune s r = S.index s (encode r.toNat) ∧ S.indexRune s r = S.indexAny s (encode r.toNat) ∧
    S.indexByte s c = S.index s [c] :=
  ⟨(A.indexRune_eq_index_encode s r hv).1, (A.indexRune_eq_index_encode s r hv).2, A.indexByte_eq_index s c hc⟩

/-- the identities that relate *different cores*, for the algorithm model (both packages, every backend setting) -/
theorem model_identities2 (cfg : A.Cfg) (s t : Bytes) (r : Int) (hv : S.validRuneI r = true) (c : UInt8) (hc : c < 0x80) :
    ((A.Contains cfg s t = true) ↔ 0 ≤ A.LastIndex cfg s t) ∧
    (A.Contains cfg s t = true ↔ 0 < A.Count cfg s t) ∧
    (A.Cut cfg s t).map (·.2.2) = some (A.Contains cfg s t) ∧
    (0 ≤ A.Index cfg s t → A.Index cfg s t ≤ A.LastIndex cfg s t) ∧
    (A.HasSuffix cfg s t = true ↔ ∃ i : Nat, A.LastIndex cfg s t = (i : Int) ∧ A.EqualFold cfg (s.drop i) t = true) ∧
    A.IndexRune cfg s r = A.Index cfg s (encode r.toNat) ∧ A.IndexRune cfg s r = A.IndexAny cfg s (encode r.toNat) ∧
    A.IndexByte cfg s c = A.Index cfg s [c] ∧
    (A.ContainsAny cfg s t = true ↔ 0 ≤ A.IndexAny cfg s t) ∧ (A.ContainsRune cfg s r = true ↔ 0 ≤ A.IndexRune cfg s r) := by
  have hEF : ∀ x y, A.EqualFold cfg x y = S.equalFold x y := fun x y => C02.equalFold_refines cfg x y
  simp only [C01.contains_refines, C08.lastIndex_refines, C12.count_refines, C12.cut_refines, C01.index_refines,
    C09.hasSuffix_refines, C10.indexRune_refines, C11.indexAny_refines, C10.indexByte_refines, hEF,
    C11.containsAny_refines, C10.containsRune_refines, Option.map_some]
  refine ⟨?_, ?_, ?_, ?_, ?_, ?_, ?_, ?_, ?_, ?_⟩
  · rw [C01.contains_iff]; exact (C08.index_le_lastIndex s t).1
  · rw [← A.count_pos_iff]; exact ⟨fun h => by exact_mod_cast h, fun h => by exact_mod_cast h⟩
  · rw [A.cut_found_iff]
  · exact (C08.index_le_lastIndex s t).2
  · exact A.hasSuffix_iff_lastIndex s t
  · exact (A.indexRune_eq_index_encode s r hv).1
  · exact (A.indexRune_eq_index_encode s r hv).2
  · exact A.indexByte_eq_index s c hc
  · simp [S.containsAny]
  · simp [S.containsRune]

/-- the same identities hold of the algorithm model (through the refinement theorems) -/
theorem model_identities (cfg : A.Cfg) (s t : Bytes) :
    (A.Contains cfg s t = true ↔ 0 ≤ A.Index cfg s t) ∧ (A.HasPrefix cfg s t = true ↔ A.Index cfg s t = 0) ∧
    (A.CutPrefix cfg s t).2 = A.HasPrefix cfg s t ∧ (A.CutSuffix cfg s t).2 = A.HasSuffix cfg s t ∧
    (A.CutSuffix cfg s t).1 = A.TrimSuffix cfg s t ∧ (A.EqualFold cfg s t = true ↔ A.Compare cfg s t = 0) := by
  rw [C01.contains_refines, C01.index_refines, C09.hasPrefix_refines, C09.cutPrefix_refines, C09.cutSuffix_refines,
    C09.hasSuffix_refines, C09.trimSuffix_refines]
  exact ⟨C01.contains_iff s t, hasPrefix_iff_index_zero s t, cutPrefix_found s t, (cutSuffix_found s t).1, (cutSuffix_found s t).2,
    by simp [A.EqualFold]⟩

/-! ### Source level: the thin wrappers of the regenerated `strcase.go`

`Gen.Src.str` is the go/ssa form of `strcase.go`, regenerated from the repository on every run and run by the interpreter
`GoSsa.run` (`Model/GoSsa.lean`).  The theorems below are about **that program text**: each thin wrapper the property's
anchor names (Contains, ContainsAny, ContainsRune, EqualFold, HasPrefix, HasSuffix, CutSuffix, …) returns the value the
algorithm model `A` assigns to it, given that the separately implemented core it calls returns `A`'s value for that core.
(`GoSsa.Ret p byt fn args h vs h'`: called with `args` on heap `h`, `fn` returns `vs`, for all sufficiently large fuel.)
The cores themselves (`Compare`, `Index`, `IndexAny`, `indexRune`, `hasPrefixUnicode`, `hasSuffixUnicode`, `TrimPrefix`,
`indexByte`, `indexRuneCase`) are tied to `A` by the correspondence run (`I = G = A` on every op), not yet by proof. -/
section source
open GoSsa Gen.Src

/-- the configuration of the platform the programs were type-checked for -/
abbrev scfg : A.Cfg := GoSsa.cfg false
/-- a string argument: `root` is the argument's index -/
abbrev arg (s : Bytes) (root : Nat) : Val := .str s root 0
/-- a sub-slice of the first argument, as the model's `(offset, length)` pair denotes it -/
abbrev sub (s : Bytes) (p : S.Slice) : Val := .str ((s.drop p.1).take p.2) 0 p.1

theorem int_beq (a b : Int) : (a == b) = decide (a = b) := by
  by_cases hh : a = b <;> simp [hh]

theorem source_clamp (n : Int) (h : Heap) : Ret Gen.Src.str false str_clamp [.int n] h [.int (Utf8.clamp n)] h := Str.clamp n h

theorem source_isAlpha_all : (List.range 256).all (fun n =>
    decide ((65 ≤ (n : Int) ∧ (n : Int) ≤ 90) ∨ (97 ≤ (n : Int) ∧ (n : Int) ≤ 122)) == A.isAlpha (UInt8.ofNat n)) = true := by decide +kernel

/-- `isAlpha` of the source is `A.isAlpha`, for all 256 byte values -/
theorem source_isAlpha (c : UInt8) (h : Heap) : Ret Gen.Src.str false str_isAlpha [.int c.toNat] h [.bool (A.isAlpha c)] h := by
  have hb := List.all_eq_true.1 source_isAlpha_all c.toNat (List.mem_range.2 c.toNat_lt)
  rw [Utf8.ofNat_toNat_id] at hb
  have := Str.isAlpha (c.toNat : Int) h
  rwa [eq_of_beq hb] at this

theorem source_EqualFold (s t : Bytes) (h h' : Heap)
    (hCore : Ret Gen.Src.str false str_Compare [arg s 0, arg t 1] h [.int (A.Compare scfg s t)] h') :
    Ret Gen.Src.str false str_EqualFold [arg s 0, arg t 1] h [.bool (A.EqualFold scfg s t)] h' := by
  have := Str.EqualFold _ _ h h' _ hCore
  simpa [A.EqualFold, int_beq] using this

theorem source_Contains (s t : Bytes) (h h' : Heap)
    (hCore : Ret Gen.Src.str false str_Index [arg s 0, arg t 1] h [.int (A.Index scfg s t)] h') :
    Ret Gen.Src.str false str_Contains [arg s 0, arg t 1] h [.bool (A.Contains scfg s t)] h' := by
  have := Str.Contains _ _ h h' _ hCore
  simpa [A.Contains] using this

theorem source_ContainsAny (s t : Bytes) (h h' : Heap)
    (hCore : Ret Gen.Src.str false str_IndexAny [arg s 0, arg t 1] h [.int (A.IndexAny scfg s t)] h') :
    Ret Gen.Src.str false str_ContainsAny [arg s 0, arg t 1] h [.bool (A.ContainsAny scfg s t)] h' := by
  have := Str.ContainsAny _ _ h h' _ hCore
  simpa [A.ContainsAny] using this

theorem source_IndexRune (s : Bytes) (r : Int) (h h' : Heap)
    (hCore : Ret Gen.Src.str false str_indexRune [arg s 0, .int r] h [.int (A.indexRune scfg s r).1, .int (A.indexRune scfg s r).2] h') :
    Ret Gen.Src.str false str_IndexRune [arg s 0, .int r] h [.int (A.IndexRune scfg s r)] h' :=
  Str.IndexRune _ _ h h' _ _ hCore

theorem source_ContainsRune (s : Bytes) (r : Int) (h h' : Heap)
    (hCore : Ret Gen.Src.str false str_indexRune [arg s 0, .int r] h [.int (A.indexRune scfg s r).1, .int (A.indexRune scfg s r).2] h') :
    Ret Gen.Src.str false str_ContainsRune [arg s 0, .int r] h [.bool (A.ContainsRune scfg s r)] h' := by
  have := Str.ContainsRune _ _ h h' _ (source_IndexRune s r h h' hCore)
  simpa [A.ContainsRune] using this

theorem source_HasPrefix (s t : Bytes) (h h' : Heap)
    (hCore : Ret Gen.Src.str false str_hasPrefixUnicode [arg s 0, arg t 1] h
      [.bool (A.hasPrefixUnicode scfg s t).1, .bool (A.hasPrefixUnicode scfg s t).2] h') :
    Ret Gen.Src.str false str_HasPrefix [arg s 0, arg t 1] h [.bool (A.HasPrefix scfg s t)] h' :=
  Str.HasPrefix _ _ h h' _ _ hCore

theorem source_HasSuffix (s t : Bytes) (h h' : Heap)
    (hCore : Ret Gen.Src.str false str_hasSuffixUnicode [arg s 0, arg t 1] h
      [.bool (A.hasSuffixUnicode scfg s t).1, .int (A.hasSuffixUnicode scfg s t).2] h') :
    Ret Gen.Src.str false str_HasSuffix [arg s 0, arg t 1] h [.bool (A.HasSuffix scfg s t)] h' :=
  Str.HasSuffix _ _ h h' _ _ hCore

/-- `TrimSuffix`: the returned string is the sub-slice of the first argument the model names (never a copy, never out of range:
    a cut index beyond `len(s)` would be a panic of the source program, excluded by `hk`) -/
theorem source_TrimSuffix (s t : Bytes) (h h' : Heap) (hk : (A.hasSuffixUnicode scfg s t).2 ≤ s.length)
    (hCore : Ret Gen.Src.str false str_hasSuffixUnicode [arg s 0, arg t 1] h
      [.bool (A.hasSuffixUnicode scfg s t).1, .int (A.hasSuffixUnicode scfg s t).2] h') :
    Ret Gen.Src.str false str_TrimSuffix [arg s 0, arg t 1] h [sub s (A.TrimSuffix scfg s t)] h' := by
  have := Str.TrimSuffix s 0 0 (arg t 1) h h' _ _ hk hCore
  unfold A.TrimSuffix sub
  cases hb : (A.hasSuffixUnicode scfg s t).1 <;> simp [hb] at this ⊢ <;> exact this

theorem source_CutSuffix (s t : Bytes) (h h' : Heap) (hk : (A.hasSuffixUnicode scfg s t).2 ≤ s.length)
    (hCore : t ≠ [] → Ret Gen.Src.str false str_hasSuffixUnicode [arg s 0, arg t 1] h
      [.bool (A.hasSuffixUnicode scfg s t).1, .int (A.hasSuffixUnicode scfg s t).2] h') :
    Ret Gen.Src.str false str_CutSuffix [arg s 0, arg t 1] h
      [sub s (A.CutSuffix scfg s t).1, .bool (A.CutSuffix scfg s t).2] (if t = [] then h else h') := by
  have := Str.CutSuffix s t 0 0 1 0 h h' _ _ hk hCore
  unfold A.CutSuffix sub
  by_cases ht : t = []
  · simp [ht] at this ⊢; exact this
  · have hl : t.length ≠ 0 := fun e => ht (List.eq_nil_of_length_eq_zero e)
    cases hb : (A.hasSuffixUnicode scfg s t).1 <;> simp [ht, hl, hb] at this ⊢ <;> exact this

theorem source_IndexByte (s : Bytes) (c : UInt8) (h h' : Heap)
    (hCore : (c = 0x4B ∨ c = 0x53 ∨ c = 0x6B ∨ c = 0x73) → Ret Gen.Src.str false str_indexByte [arg s 0, .int c.toNat] h
      [.int (A.indexByte scfg s c).1, .int (A.indexByte scfg s c).2] h') :
    Ret Gen.Src.str false str_IndexByte [arg s 0, .int c.toNat] h [.int (A.IndexByte scfg s c)]
      (if c = 0x4B ∨ c = 0x53 ∨ c = 0x6B ∨ c = 0x73 then h' else h) := by
  have hiff : ((c.toNat : Int) = 75 ∨ (c.toNat : Int) = 83 ∨ (c.toNat : Int) = 107 ∨ (c.toNat : Int) = 115) ↔
      (c = 0x4B ∨ c = 0x53 ∨ c = 0x6B ∨ c = 0x73) := by
    have e : ∀ k : UInt8, ((c.toNat : Int) = (k.toNat : Int) ↔ c = k) := fun k => by
      constructor
      · intro hh
        have hn : c.toNat = k.toNat := by omega
        rw [← Utf8.ofNat_toNat_id c, ← Utf8.ofNat_toNat_id k, hn]
      · intro hh; rw [hh]
    exact or_congr (e 75) (or_congr (e 83) (or_congr (e 107) (e 115)))
  have := Str.IndexByte s 0 0 (c.toNat : Int) h h' _ _ (fun hc => hCore (hiff.mp hc))
  unfold A.IndexByte
  by_cases hc : c = 0x4B ∨ c = 0x53 ∨ c = 0x6B ∨ c = 0x73
  · simp only [if_pos hc, if_pos (hiff.mpr hc)] at this ⊢; exact this
  · simp only [if_neg hc, if_neg (fun x => hc (hiff.mp x))] at this ⊢
    simpa [Utf8.ofNat_toNat_id] using this

theorem source_IndexNonASCII (s : Bytes) (h : Heap) :
    Ret Gen.Src.str false str_IndexNonASCII [arg s 0] h [.int (A.IndexNonASCII scfg s)] h := Str.IndexNonASCII s 0 0 h

theorem source_ContainsNonASCII (s : Bytes) (h : Heap) :
    Ret Gen.Src.str false str_ContainsNonASCII [arg s 0] h [.bool (A.ContainsNonASCII scfg s)] h := by
  have := Str.ContainsNonASCII s 0 0 h
  simpa [A.ContainsNonASCII] using this

theorem source_IndexByteASCII (s : Bytes) (c : UInt8) (h : Heap) :
    Ret Gen.Src.str false str_IndexByteASCII [arg s 0, .int c.toNat] h [.int (A.IndexByteASCII scfg s c)] h := by
  have := Str.IndexByteASCII s 0 0 (c.toNat : Int) h
  simpa [A.IndexByteASCII, Utf8.ofNat_toNat_id] using this

theorem source_containsKelvin (s : Bytes) (root off : Nat) (h : Heap)
    (hK : Ret Gen.Src.str false str_indexRuneCase [.str s root off, .int 8490] h [.int (A.indexRuneCase scfg s 0x212A)] h)
    (hF : Ret Gen.Src.str false str_indexRuneCase [.str s root off, .int 65533] h [.int (A.indexRuneCase scfg s 0xFFFD)] h) :
    Ret Gen.Src.str false str_containsKelvin [.str s root off] h [.bool (A.containsKelvin scfg s)] h := by
  have := Str.containsKelvin s root off h _ _ hK hF
  simpa [A.containsKelvin, bne, int_beq] using this

/-- `IndexByte` of the source relative to `indexRuneCase` only (through `C10.source_indexByte`) -/
theorem source_IndexByte_via_indexRuneCase (s : Bytes) (c : UInt8) (h : Heap) (hls : s.length < 4611686018427387904)
    (hCore : ∀ (s' : Bytes) (r : Int), ∃ N, ∀ fuel, N ≤ fuel →
      run Gen.Src.str false fuel (Frame.entry str_indexRuneCase [.str s' 0 0, .int r]) h = .ok [.int (A.indexRuneCase scfg s' r)] h) :
    Ret Gen.Src.str false str_IndexByte [arg s 0, .int c.toNat] h [.int (A.IndexByte scfg s c)] h := by
  have := source_IndexByte s c h h (fun _ => C10.source_indexByte s 0 0 c h hls hCore)
  simpa using this

end source

section sourceB
open GoSsa Gen.Src

/-- the same for `bytcase/bytcase.go` (`Gen.Src.byt`) -/
abbrev bcfg : A.Cfg := GoSsa.cfg true
theorem source_byt_clamp (n : Int) (h : Heap) : Ret Gen.Src.byt true byt_clamp [.int n] h [.int (Utf8.clamp n)] h := Byt.clamp n h

/-- `isAlpha` of the source is `A.isAlpha`, for all 256 byte values -/
theorem source_byt_isAlpha (c : UInt8) (h : Heap) : Ret Gen.Src.byt true byt_isAlpha [.int c.toNat] h [.bool (A.isAlpha c)] h := by
  have hb := List.all_eq_true.1 source_isAlpha_all c.toNat (List.mem_range.2 c.toNat_lt)
  rw [Utf8.ofNat_toNat_id] at hb
  have := Byt.isAlpha (c.toNat : Int) h
  rwa [eq_of_beq hb] at this

theorem source_byt_EqualFold (s t : Bytes) (h h' : Heap)
    (hCore : Ret Gen.Src.byt true byt_Compare [arg s 0, arg t 1] h [.int (A.Compare bcfg s t)] h') :
    Ret Gen.Src.byt true byt_EqualFold [arg s 0, arg t 1] h [.bool (A.EqualFold bcfg s t)] h' := by
  have := Byt.EqualFold _ _ h h' _ hCore
  simpa [A.EqualFold, int_beq] using this

theorem source_byt_Contains (s t : Bytes) (h h' : Heap)
    (hCore : Ret Gen.Src.byt true byt_Index [arg s 0, arg t 1] h [.int (A.Index bcfg s t)] h') :
    Ret Gen.Src.byt true byt_Contains [arg s 0, arg t 1] h [.bool (A.Contains bcfg s t)] h' := by
  have := Byt.Contains _ _ h h' _ hCore
  simpa [A.Contains] using this

theorem source_byt_ContainsAny (s t : Bytes) (h h' : Heap)
    (hCore : Ret Gen.Src.byt true byt_IndexAny [arg s 0, arg t 1] h [.int (A.IndexAny bcfg s t)] h') :
    Ret Gen.Src.byt true byt_ContainsAny [arg s 0, arg t 1] h [.bool (A.ContainsAny bcfg s t)] h' := by
  have := Byt.ContainsAny _ _ h h' _ hCore
  simpa [A.ContainsAny] using this

theorem source_byt_IndexRune (s : Bytes) (r : Int) (h h' : Heap)
    (hCore : Ret Gen.Src.byt true byt_indexRune [arg s 0, .int r] h [.int (A.indexRune bcfg s r).1, .int (A.indexRune bcfg s r).2] h') :
    Ret Gen.Src.byt true byt_IndexRune [arg s 0, .int r] h [.int (A.IndexRune bcfg s r)] h' :=
  Byt.IndexRune _ _ h h' _ _ hCore

theorem source_byt_ContainsRune (s : Bytes) (r : Int) (h h' : Heap)
    (hCore : Ret Gen.Src.byt true byt_indexRune [arg s 0, .int r] h [.int (A.indexRune bcfg s r).1, .int (A.indexRune bcfg s r).2] h') :
    Ret Gen.Src.byt true byt_ContainsRune [arg s 0, .int r] h [.bool (A.ContainsRune bcfg s r)] h' := by
  have := Byt.ContainsRune _ _ h h' _ (source_byt_IndexRune s r h h' hCore)
  simpa [A.ContainsRune] using this

theorem source_byt_HasPrefix (s t : Bytes) (h h' : Heap)
    (hCore : Ret Gen.Src.byt true byt_hasPrefixUnicode [arg s 0, arg t 1] h
      [.bool (A.hasPrefixUnicode bcfg s t).1, .bool (A.hasPrefixUnicode bcfg s t).2] h') :
    Ret Gen.Src.byt true byt_HasPrefix [arg s 0, arg t 1] h [.bool (A.HasPrefix bcfg s t)] h' :=
  Byt.HasPrefix _ _ h h' _ _ hCore

theorem source_byt_HasSuffix (s t : Bytes) (h h' : Heap)
    (hCore : Ret Gen.Src.byt true byt_hasSuffixUnicode [arg s 0, arg t 1] h
      [.bool (A.hasSuffixUnicode bcfg s t).1, .int (A.hasSuffixUnicode bcfg s t).2] h') :
    Ret Gen.Src.byt true byt_HasSuffix [arg s 0, arg t 1] h [.bool (A.HasSuffix bcfg s t)] h' :=
  Byt.HasSuffix _ _ h h' _ _ hCore

/-- `TrimSuffix`: the returned string is the sub-slice of the first argument the model names (never a copy, never out of range:
    a cut index beyond `len(s)` would be a panic of the source program, excluded by `hk`) -/
theorem source_byt_TrimSuffix (s t : Bytes) (h h' : Heap) (hk : (A.hasSuffixUnicode bcfg s t).2 ≤ s.length)
    (hCore : Ret Gen.Src.byt true byt_hasSuffixUnicode [arg s 0, arg t 1] h
      [.bool (A.hasSuffixUnicode bcfg s t).1, .int (A.hasSuffixUnicode bcfg s t).2] h') :
    Ret Gen.Src.byt true byt_TrimSuffix [arg s 0, arg t 1] h [sub s (A.TrimSuffix bcfg s t)] h' := by
  have := Byt.TrimSuffix s 0 0 (arg t 1) h h' _ _ hk hCore
  unfold A.TrimSuffix sub
  cases hb : (A.hasSuffixUnicode bcfg s t).1 <;> simp [hb] at this ⊢ <;> exact this

theorem source_byt_CutSuffix (s t : Bytes) (h h' : Heap) (hk : (A.hasSuffixUnicode bcfg s t).2 ≤ s.length)
    (hCore : t ≠ [] → Ret Gen.Src.byt true byt_hasSuffixUnicode [arg s 0, arg t 1] h
      [.bool (A.hasSuffixUnicode bcfg s t).1, .int (A.hasSuffixUnicode bcfg s t).2] h') :
    Ret Gen.Src.byt true byt_CutSuffix [arg s 0, arg t 1] h
      [sub s (A.CutSuffix bcfg s t).1, .bool (A.CutSuffix bcfg s t).2] (if t = [] then h else h') := by
  have := Byt.CutSuffix s t 0 0 1 0 h h' _ _ hk hCore
  unfold A.CutSuffix sub
  by_cases ht : t = []
  · simp [ht] at this ⊢; exact this
  · have hl : t.length ≠ 0 := fun e => ht (List.eq_nil_of_length_eq_zero e)
    cases hb : (A.hasSuffixUnicode bcfg s t).1 <;> simp [ht, hl, hb] at this ⊢ <;> exact this

theorem source_byt_IndexByte (s : Bytes) (c : UInt8) (h h' : Heap)
    (hCore : (c = 0x4B ∨ c = 0x53 ∨ c = 0x6B ∨ c = 0x73) → Ret Gen.Src.byt true byt_indexByte [arg s 0, .int c.toNat] h
      [.int (A.indexByte bcfg s c).1, .int (A.indexByte bcfg s c).2] h') :
    Ret Gen.Src.byt true byt_IndexByte [arg s 0, .int c.toNat] h [.int (A.IndexByte bcfg s c)]
      (if c = 0x4B ∨ c = 0x53 ∨ c = 0x6B ∨ c = 0x73 then h' else h) := by
  have hiff : ((c.toNat : Int) = 75 ∨ (c.toNat : Int) = 83 ∨ (c.toNat : Int) = 107 ∨ (c.toNat : Int) = 115) ↔
      (c = 0x4B ∨ c = 0x53 ∨ c = 0x6B ∨ c = 0x73) := by
    have e : ∀ k : UInt8, ((c.toNat : Int) = (k.toNat : Int) ↔ c = k) := fun k => by
      constructor
      · intro hh
        have hn : c.toNat = k.toNat := by omega
        rw [← Utf8.ofNat_toNat_id c, ← Utf8.ofNat_toNat_id k, hn]
      · intro hh; rw [hh]
    exact or_congr (e 75) (or_congr (e 83) (or_congr (e 107) (e 115)))
  have := Byt.IndexByte s 0 0 (c.toNat : Int) h h' _ _ (fun hc => hCore (hiff.mp hc))
  unfold A.IndexByte
  by_cases hc : c = 0x4B ∨ c = 0x53 ∨ c = 0x6B ∨ c = 0x73
  · simp only [if_pos hc, if_pos (hiff.mpr hc)] at this ⊢; exact this
  · simp only [if_neg hc, if_neg (fun x => hc (hiff.mp x))] at this ⊢
    simpa [Utf8.ofNat_toNat_id] using this

theorem source_byt_IndexNonASCII (s : Bytes) (h : Heap) :
    Ret Gen.Src.byt true byt_IndexNonASCII [arg s 0] h [.int (A.IndexNonASCII bcfg s)] h := Byt.IndexNonASCII s 0 0 h

theorem source_byt_ContainsNonASCII (s : Bytes) (h : Heap) :
    Ret Gen.Src.byt true byt_ContainsNonASCII [arg s 0] h [.bool (A.ContainsNonASCII bcfg s)] h := by
  have := Byt.ContainsNonASCII s 0 0 h
  simpa [A.ContainsNonASCII] using this

theorem source_byt_IndexByteASCII (s : Bytes) (c : UInt8) (h : Heap) :
    Ret Gen.Src.byt true byt_IndexByteASCII [arg s 0, .int c.toNat] h [.int (A.IndexByteASCII bcfg s c)] h := by
  have := Byt.IndexByteASCII s 0 0 (c.toNat : Int) h
  simpa [A.IndexByteASCII, Utf8.ofNat_toNat_id] using this

theorem source_byt_containsKelvin (s : Bytes) (root off : Nat) (h : Heap)
    (hK : Ret Gen.Src.byt true byt_indexRuneCase [.str s root off, .int 8490] h [.int (A.indexRuneCase bcfg s 0x212A)] h)
    (hF : Ret Gen.Src.byt true byt_indexRuneCase [.str s root off, .int 65533] h [.int (A.indexRuneCase bcfg s 0xFFFD)] h) :
    Ret Gen.Src.byt true byt_containsKelvin [.str s root off] h [.bool (A.containsKelvin bcfg s)] h := by
  have := Byt.containsKelvin s root off h _ _ hK hF
  simpa [A.containsKelvin, bne, int_beq] using this

end sourceB
end C17
