import SC.Proofs.SpecIndex
import SC.Proofs.RIndex
/-!
# C01 — Index/Contains return exactly the leftmost case-insensitive match

Layer 1 (this file, complete): the specification `S.index` — the executable model the real code
is compared with on every run — *is* "the smallest decode boundary `i` of `s` at which the folded
runes of `sub` are a prefix of the folded runes of `s[i:]`, −1 if there is none, 0 for an empty
needle", for **arbitrary** byte strings.
Layer 2 (`C01R`, refinement): the transliterated algorithm `A.Index` meets the same contract.
-/
namespace C01
open Utf8

/-- `S.index` is the leftmost match (or −1), for all byte strings -/
theorem index_is_leftmost (s sub : Bytes) : IsIndex S.fold s sub (S.index s sub) := S_index_isIndex s sub

/-- the contract has exactly one solution: whatever meets it equals `S.index` -/
theorem leftmost_unique (s sub : Bytes) (r : Int) (h : IsIndex S.fold s sub r) : r = S.index s sub :=
  eq_S_index_of_isIndex s sub r h

/-- empty needle: 0 -/
theorem index_empty (s : Bytes) : S.index s [] = 0 := by
  have h := S_index_isIndex s []
  rcases h with ⟨_, hn⟩ | ⟨i, hr, _, _, hmin⟩
  · exact absurd (by simp [Match, fdec, dec_nil]) (hn 0 (isBoundary_zero s))
  · rw [hr]
    cases i with
    | zero => rfl
    | succ i => exact absurd (by simp [Match, fdec, dec_nil]) (hmin 0 (isBoundary_zero s) (by omega))

/-- result range: −1 or an offset within `s` -/
theorem index_range (s sub : Bytes) : S.index s sub = -1 ∨ (0 ≤ S.index s sub ∧ S.index s sub ≤ s.length) := by
  rcases S_index_isIndex s sub with ⟨h, _⟩ | ⟨i, hr, hb, _, _⟩
  · exact Or.inl h
  · right; rw [hr]; have := isBoundary_le s i hb; omega

/-- Contains reports Index ≥ 0 -/
theorem contains_iff (s sub : Bytes) : S.contains s sub = true ↔ 0 ≤ S.index s sub := by
  unfold S.contains S.index
  cases S.indexK s sub <;> simp

/-- a reported position is a match, and the matched text `s[i:j]` ends on a boundary `j` with
    `fruns s[i:j] = fruns sub` (so `strings.EqualFold(s[i:j], sub)` by C02/C03) -/
theorem index_match_slice (s sub : Bytes) (i : Nat) (h : S.index s sub = (i : Int)) :
    ∃ j, IsBoundary s j ∧ i ≤ j ∧ S.fruns ((s.drop i).take (j - i)) = S.fruns sub := by
  rcases S_index_isIndex s sub with ⟨h1, _⟩ | ⟨i', hr, hb, hm, _⟩
  · rw [h1] at h; omega
  · have : i' = i := by rw [hr] at h; omega
    subst this
    -- the match covers the first `nrunes sub` segments of `s.drop i`
    refine ⟨i' + offAt (s.drop i') (dec sub).length, ?_, by omega, ?_⟩
    · apply isBoundary_drop_add s i' _ hb
      have hlen : (dec sub).length ≤ (dec (s.drop i')).length := by
        have := hm.length_le; simpa [fdec] using this
      exact ⟨_, hlen, rfl⟩
    · have e : i' + offAt (s.drop i') (dec sub).length - i' = offAt (s.drop i') (dec sub).length := by omega
      rw [e]
      unfold S.fruns fdec
      rw [dec_take_offAt]
      have := List.prefix_iff_eq_take.mp hm
      simp only [fdec, List.length_map] at this
      rw [List.map_take]; exact this.symm

/-! ### Layer 2 — refinement: the transliterated algorithm equals the specification

`A.Index` is the function-by-function transliteration of `strcase.Index` / `bytcase.Index`: the dispatch
(empty needle, one byte, one code point, needle at least as long as the haystack with its length
pre-checks and `IndexRune` jump, the non-letter-ASCII fast path to the native `Index`, short haystack),
`bruteForceIndexUnicode` (three variants), the skip loop (candidate sets from `ToUpperLower` +
`FoldMapExcludingUpperLower` + the İ/ı special case, `indexRune`/`indexRune2`, the window bound `t`,
`hasPrefixUnicode` with its `exhausted` flag, the `fails` cut-over) and `indexRabinKarpUnicode` (hash,
`pow` by repeated squaring, rolling window, verification).  It is proved to return the leftmost match
for **every** pair of byte strings — no validity, length or content hypothesis — in both packages
and for both values of `NativeIndex`; the thresholds `maxLen`, `maxBruteForce` and `primeRK` are
parameters (regenerated from the source), so the theorem does not depend on their values. -/

theorem index_refines (cfg : A.Cfg) (s sub : Bytes) : A.Index cfg s sub = S.index s sub := A.Index_eq cfg s sub
theorem contains_refines (cfg : A.Cfg) (s sub : Bytes) : A.Contains cfg s sub = S.contains s sub := A.Contains_eq cfg s sub

/-- the individual strategies meet the same contract on their own (they are also compared with the real
    unexported functions through the hooks) -/
theorem bruteForce_leftmost (cfg : A.Cfg) (s sub : Bytes) (h2 : (decodeRune sub).2 < sub.length) :
    IsIndex Fold.caseFold s sub (A.bruteForceIndexUnicode cfg s sub) := A.bruteForce_isIndex cfg s sub h2
theorem rabinKarp_leftmost (cfg : A.Cfg) (s sub : Bytes) (h : sub ≠ []) :
    IsIndex Fold.caseFold s sub (A.indexRabinKarpUnicode cfg s sub) := A.indexRabinKarpUnicode_isIndex cfg s sub h
theorem skipLoop_leftmost (cfg : A.Cfg) (s sub : Bytes) (h2 : (decodeRune sub).2 < sub.length)
    (hu0 : (decodeRune sub).1 ≠ 0xFFFD) : IsIndex Fold.caseFold s sub (A.indexSkip cfg s sub) :=
  A.indexSkip_isIndex cfg s sub h2 hu0

/-- the window bound of the skip loop and of the brute-force loop: with `t = min(len s, len s + 2 − n/3)` the
    second rune of every match starts below `t` (with `+ 1`, the pinned tree's constant, this is false:
    finding D1) -/
theorem window_bound (s sub : Bytes) (f0 f1 : Nat) (fn : List Nat) (hsub : fdec Fold.caseFold sub = f0 :: f1 :: fn)
    (i : Nat) (hi : IsBoundary s i) (hm : Match Fold.caseFold (s.drop i) sub) :
    i + (decodeRune (s.drop i)).2 < min s.length (s.length + 2 - sub.length / 3) :=
  A.window_bound' s sub f0 f1 fn hsub i hi hm

example : A.Index {} [0x78, 0x78, 0x78, 0x78, 0x78, 0x78, 0x78, 0x78, 0x78, 0x78, 0x78, 0x78, 0x78, 0x78, 0x61, 0x6B, 0x6B] [0xE2, 0x84, 0xAA, 0xE2, 0x84, 0xAA] = 15 := by
  rw [index_refines]; decide +kernel
example : S.index [0x78, 0x6B, 0x4B] [0xE2, 0x84, 0xAA, 0x6B] = 1 := by decide +kernel
end C01
