import SC.Gen.CallGraph
/-!
# C05 — no exported function ever allocates heap memory

A proof about a static abstraction of the *compiled* program, regenerated on every run
(`tools/callgraph.py`: `go tool objdump` of the harness binary built from the current tree, and the
compiler's escape analysis `-gcflags=-m` of the four product packages):

* `Gen.CG.nodes` / `edges` are the closure of the 46 exported functions under direct calls; the
  extractor stops expanding at the panic / stack-growth entry points and at `runtime.intstring`;
* no node is one of the runtime's allocation entry points, no product function makes an indirect call,
  the stop nodes are exactly what this file allows, every `runtime.intstring` call site passes a stack
  buffer (so `intstring` takes its `buf != nil` branch and does not call `rawstring`), and the compiler
  reports no value escaping to / moved to the heap in the product packages.

"No allocator is reachable in the call graph" is an over-approximation of "no call allocates", so
no quantifier over inputs is left.  Trusted: the extractor, objdump, the allocator entry list below,
and "growing the stack is not a heap allocation".
-/
namespace C05
open Gen.CG

/-- prefixes of the runtime's allocation entry points -/
def allocPrefixes : List String :=
  ["runtime.mallocgc", "runtime.newobject", "runtime.newarray", "runtime.makeslice", "runtime.growslice",
   "runtime.rawstring", "runtime.rawbyteslice", "runtime.rawruneslice", "runtime.slicebytetostring",
   "runtime.stringtoslicebyte", "runtime.stringtoslicerune", "runtime.slicerunetostring", "runtime.concatstring",
   "runtime.convT", "runtime.makemap", "runtime.makechan", "runtime.newproc", "runtime.mapassign",
   "runtime.chansend", "runtime.gcWriteBarrier", "runtime.wbMove", "runtime.wbZero", "runtime.typedmemmove",
   "runtime.persistentalloc", "runtime.newdefer", "runtime.deferproc", "runtime.growWork", "runtime.memclrHasPointers",
   "strings.(*Builder)", "bytes.(*Buffer)", "strings.ToLower", "strings.ToUpper", "bytes.ToLower", "bytes.ToUpper",
   "strings.Map", "bytes.Map", "fmt.", "sync.", "reflect."]

def codes (s : String) : List Nat := s.toList.map Char.toNat

/-- the prefix lists as character codes, computed once -/
def allocCodes : List (List Nat) := allocPrefixes.map codes
def isAllocator (n : List Nat) : Bool := allocCodes.any fun p => p.isPrefixOf n

/-- where the extractor may stop: panics (C06's business), stack growth, and the conditional `intstring` -/
def stopPrefixes : List String :=
  ["runtime.panic", "runtime.goPanic", "runtime.gopanic", "runtime.throw", "runtime.fatal", "runtime.morestack",
   "runtime.sigpanic", "runtime.intstring"]
def stopCodes : List (List Nat) := stopPrefixes.map codes
def isStop (n : List Nat) : Bool := stopCodes.any fun p => p.isPrefixOf n

/-- the generated code lists cover the same node ids, in the same order, as `nodes` (the symbol strings of
    `nodes` are for the reader; the checks below run on the character codes the same translator emitted) -/
def codesOK : Bool := nodes.map (·.1) == nodeCodes.map (·.1)
def codeOf (i : Nat) : List Nat := (nodeCodes.lookup i).getD []

def ids : List Nat := nodes.map (·.1)

/-- the node list is closed under the extracted edges and contains every root -/
def closedOK : Bool :=
  edges.all (fun e => ids.contains e.1 && ids.contains e.2) && roots.all ids.contains

/-- no reachable function is an allocation entry point; stopped nodes are allowed stops; every
    other node has a body that was scanned; no indirect call anywhere -/
def nodesOK : Bool :=
  nodes.all fun n =>
    let name := codeOf n.1
    let stopped := n.2.2.1
    let defined := n.2.2.2.1
    let indirect := n.2.2.2.2
    !isAllocator name && (if stopped then isStop name else (defined && indirect == 0 && !isStop name))

/-- a non-stopped node without outgoing edges is a genuine leaf only if it is defined (checked above);
    every `runtime.intstring` call site passes a stack buffer -/
def intstringOK : Bool := intstringSites.all fun s => s.2 == "stackbuf"

theorem no_allocator_reachable : closedOK = true ∧ codesOK = true ∧ nodesOK = true ∧ intstringOK = true := by decide +kernel

/-- the compiler's escape analysis reports nothing escaping or moved to the heap in the product
    packages, and the analysis itself ran -/
theorem nothing_escapes : escapes = [] ∧ escapeBuildOK = true ∧ 0 < doesNotEscapeCount := by decide

/-- all 23 + 23 exported functions are roots of the graph -/
theorem all_exported_are_roots : roots.length = exportedStr.length + exportedByt.length ∧ exportedStr.length = 23 := by decide
end C05
