import SC.Proofs.Valid
import SC.Proofs.FoldFacts
import SC.Proofs.StdClass
import SC.Proofs.StdEqualFold
import SC.Proofs.StdClass2
import SC.Proofs.Utf8Order
import SC.Proofs.RIndexAny6
import SC.Proofs.RSuffix
import SC.Proofs.RTrim
/-!
# C20 — drop-in agreement with package strings/bytes on caseless and ASCII text
-/
namespace C20
open Utf8 Spec Fold

/-- on ASCII-only text the folded rune sequence is the lower-cased byte sequence -/
theorem fruns_ascii : ∀ (s : Bytes), (∀ b ∈ s, b < 0x80) → S.fruns s = s.map (fun b => (lower b).toNat)
  | [], _ => by simp [S.fruns, fdec, dec_nil]
  | b :: s, h => by
    have hb := h b (List.mem_cons_self ..)
    have ih := fruns_ascii s (fun c hc => h c (List.mem_cons_of_mem _ hc))
    unfold S.fruns fdec at ih ⊢
    rw [dec_ascii b s hb]
    simp only [S.fold] at ih
    simp only [List.map_cons, S.fold, caseFold_lower b hb, ih]

theorem map_lower_inj (s t : Bytes) :
    s.map (fun b => (lower b).toNat) = t.map (fun b => (lower b).toNat) ↔ s.map lower = t.map lower := by
  induction s generalizing t with
  | nil => cases t <;> simp
  | cons a s ih =>
    cases t with
    | nil => simp
    | cons b t => simp only [List.map_cons, List.cons.injEq, ih, UInt8.toNat_inj]

theorem map_toNat_inj : ∀ (a b : Bytes), a.map UInt8.toNat = b.map UInt8.toNat → a = b
  | [], [], _ => rfl
  | [], _ :: _, h => by simp at h
  | _ :: _, [], h => by simp at h
  | x :: a, y :: b, h => by
    simp only [List.map_cons, List.cons.injEq] at h
    rw [UInt8.toNat_inj.mp h.1, map_toNat_inj a b h.2]

/-- ASCII arguments: EqualFold / Compare-equality is equality of the ToLower-ed bytes -/
theorem equalFold_ascii (s t : Bytes) (hs : ∀ b ∈ s, b < 0x80) (ht : ∀ b ∈ t, b < 0x80) :
    S.equalFold s t = true ↔ s.map lower = t.map lower := by
  unfold S.equalFold
  rw [beq_iff_eq, fruns_ascii s hs, fruns_ascii t ht, map_lower_inj]

/-- ASCII arguments: HasPrefix is `bytes.HasPrefix` on the ToLower-ed arguments -/
theorem hasPrefix_ascii (s t : Bytes) (hs : ∀ b ∈ s, b < 0x80) (ht : ∀ b ∈ t, b < 0x80) :
    S.hasPrefix s t = true ↔ t.map lower <+: s.map lower := by
  unfold S.hasPrefix S.prefixLen
  rw [fruns_ascii s hs, fruns_ascii t ht]
  have key : t.map (fun b => (lower b).toNat) <+: s.map (fun b => (lower b).toNat) ↔ t.map lower <+: s.map lower := by
    have e : ∀ l : Bytes, l.map (fun b => (lower b).toNat) = (l.map lower).map UInt8.toNat := by intro l; simp
    rw [e, e]
    constructor
    · intro h
      rw [List.prefix_iff_eq_take] at h ⊢
      have : ((t.map lower).map UInt8.toNat) = ((s.map lower).take (t.map lower).length).map UInt8.toNat := by
        rw [List.map_take]; simpa using h
      exact map_toNat_inj _ _ this
    · intro h; exact List.IsPrefix.map _ h
  by_cases hp : (t.map (fun b => (lower b).toNat)).isPrefixOf (s.map (fun b => (lower b).toNat)) = true
  · simp only [hp, if_true, Option.isSome_some, true_iff]; exact key.mp ((isPrefixOf_iff _ _).mp hp)
  · simp only [hp, Bool.false_eq_true, if_false, Option.isSome_none, false_iff]
    exact fun h => hp ((isPrefixOf_iff _ _).mpr (key.mpr h))

/-- code points with a trivial folding orbit fold to themselves, so on caseless text the folded
    rune sequence is the rune sequence -/
def Caseless (s : Bytes) : Prop := Valid s ∧ ∀ p ∈ dec s, caseFold p.1 = p.1
theorem fruns_caseless (s : Bytes) (h : Caseless s) : S.fruns s = (dec s).map (·.1) := by
  unfold S.fruns fdec
  apply List.map_congr_left
  intro p hp; exact h.2 p hp

/-! ### The two classes of the property, against models of the standard-library namesakes (`Std.*`) -/

/-- strings.ToLower on ASCII text -/
def toLower (s : Bytes) : Bytes := s.map lower
def IsASCII (s : Bytes) : Prop := ∀ b ∈ s, b < 0x80

theorem lower_lt : ∀ b : UInt8, b < 0x80 → lower b < 0x80 := by decide +kernel

theorem dec_all_ascii : ∀ (s : Bytes), IsASCII s → dec s = s.map (fun b => (b.toNat, 1))
  | [], _ => by simp [dec_nil]
  | b :: s, h => by
    rw [dec_ascii b s (h b (List.mem_cons_self ..)), dec_all_ascii s (fun c hc => h c (List.mem_cons_of_mem _ hc))]
    rfl

theorem toLower_ascii (s : Bytes) (h : IsASCII s) : IsASCII (toLower s) := by
  intro b hb
  obtain ⟨c, hc, rfl⟩ := List.mem_map.mp hb
  exact lower_lt c (h c hc)

/-- caseless valid text is in the class with `φ = id` -/
theorem cls_caseless (s : Bytes) (h : Caseless s) : Std.Cls id s :=
  ⟨h.1, fruns_caseless s h, rfl⟩

/-- ASCII text is in the class with `φ = ToLower` -/
theorem cls_ascii (s : Bytes) (h : IsASCII s) : Std.Cls toLower s := by
  have hl := toLower_ascii s h
  refine ⟨?_, ?_, ?_⟩
  · intro p hp
    rw [dec_all_ascii _ hl] at hp
    obtain ⟨b, hb, rfl⟩ := List.mem_map.mp hp
    have := hl b hb
    have hlt : b.toNat < 128 := by have := UInt8.lt_iff_toNat_lt.mp this; simpa using this
    intro he
    have := congrArg Prod.fst he
    simp only at this; omega
  · rw [fruns_ascii s h]
    unfold Utf8.runes
    rw [dec_all_ascii _ hl]
    unfold toLower
    simp [List.map_map]
  · rw [dec_all_ascii _ hl, dec_all_ascii s h]
    unfold toLower
    simp [List.map_map]

/-- **caseless class**: on valid UTF-8 without case-folding code points, every search, test, trim, cut and count
    returns what the `strings`/`bytes` namesake returns on the same arguments -/
theorem caseless_agrees (s t : Bytes) (hs : Caseless s) (ht : Caseless t) :
    S.index s t = Std.index s t ∧ S.lastIndex s t = Std.lastIndex s t ∧ S.contains s t = Std.contains s t ∧
    S.hasPrefix s t = Std.hasPrefix s t ∧ S.hasSuffix s t = Std.hasSuffix s t ∧
    S.trimPrefix s t = Std.trimPrefix s t ∧ S.cutPrefix s t = Std.cutPrefix s t ∧
    S.trimSuffix s t = Std.trimSuffix s t ∧ S.cutSuffix s t = Std.cutSuffix s t ∧
    S.count s t = Std.count s t ∧ S.cut s t = Std.cut s t ∧
    S.indexAny s t = Std.indexAny s t ∧ S.lastIndexAny s t = Std.lastIndexAny s t ∧
    S.containsAny s t = Std.containsAny s t := by
  have a := cls_caseless s hs
  have b := cls_caseless t ht
  have hsuf := Std.cls_hasSuffix a b
  have hany := Std.cls_indexAny a b
  exact ⟨Std.cls_index a b, Std.cls_lastIndex a b, Std.cls_contains a b, Std.cls_hasPrefix a b, hsuf.1,
    (Std.cls_trimPrefix a b).1, (Std.cls_trimPrefix a b).2, hsuf.2.1, hsuf.2.2, Std.cls_count a b, Std.cls_cut a b,
    hany.1, hany.2.1, hany.2.2⟩

/-- **ASCII class**: every function returns what the namesake returns on the `ToLower`-ed arguments, with positions
    (hence sub-slices) taken in the original -/
theorem ascii_agrees (s t : Bytes) (hs : IsASCII s) (ht : IsASCII t) :
    S.index s t = Std.index (toLower s) (toLower t) ∧ S.lastIndex s t = Std.lastIndex (toLower s) (toLower t) ∧
    S.contains s t = Std.contains (toLower s) (toLower t) ∧
    S.hasPrefix s t = Std.hasPrefix (toLower s) (toLower t) ∧ S.hasSuffix s t = Std.hasSuffix (toLower s) (toLower t) ∧
    S.trimPrefix s t = Std.trimPrefix (toLower s) (toLower t) ∧ S.cutPrefix s t = Std.cutPrefix (toLower s) (toLower t) ∧
    S.trimSuffix s t = Std.trimSuffix (toLower s) (toLower t) ∧ S.cutSuffix s t = Std.cutSuffix (toLower s) (toLower t) ∧
    S.count s t = Std.count (toLower s) (toLower t) ∧ S.cut s t = Std.cut (toLower s) (toLower t) ∧
    S.indexAny s t = Std.indexAny (toLower s) (toLower t) ∧ S.lastIndexAny s t = Std.lastIndexAny (toLower s) (toLower t) ∧
    S.containsAny s t = Std.containsAny (toLower s) (toLower t) := by
  have a := cls_ascii s hs
  have b := cls_ascii t ht
  have hsuf := Std.cls_hasSuffix a b
  have hany := Std.cls_indexAny a b
  exact ⟨Std.cls_index a b, Std.cls_lastIndex a b, Std.cls_contains a b, Std.cls_hasPrefix a b, hsuf.1,
    (Std.cls_trimPrefix a b).1, (Std.cls_trimPrefix a b).2, hsuf.2.1, hsuf.2.2, Std.cls_count a b, Std.cls_cut a b,
    hany.1, hany.2.1, hany.2.2⟩

/-- ASCII class, Compare: the sign (here: the value) of `bytes.Compare` on the `ToLower`-ed arguments -/
theorem ascii_compare (s t : Bytes) (hs : IsASCII s) (ht : IsASCII t) :
    S.compare s t = Std.compare (toLower s) (toLower t) := by
  unfold S.compare Std.compare toLower
  rw [fruns_ascii s hs, fruns_ascii t ht]
  simp only [List.map_map]
  rfl

/-- the same for the algorithm model (both packages, every backend setting), through the refinement theorems:
    `strcase.F(s,t)` = `strings.F(φ s, φ t)` on models of both sides -/
theorem model_agrees (φ : Bytes → Bytes) (cfg : A.Cfg) (s t : Bytes) (hs : Std.Cls φ s) (ht : Std.Cls φ t) :
    A.Index cfg s t = Std.index (φ s) (φ t) ∧ A.LastIndex cfg s t = Std.lastIndex (φ s) (φ t) ∧
    A.Contains cfg s t = Std.contains (φ s) (φ t) ∧
    A.HasPrefix cfg s t = Std.hasPrefix (φ s) (φ t) ∧ A.HasSuffix cfg s t = Std.hasSuffix (φ s) (φ t) ∧
    A.TrimPrefix cfg s t = Std.trimPrefix (φ s) (φ t) ∧ A.CutPrefix cfg s t = Std.cutPrefix (φ s) (φ t) ∧
    A.TrimSuffix cfg s t = Std.trimSuffix (φ s) (φ t) ∧ A.CutSuffix cfg s t = Std.cutSuffix (φ s) (φ t) ∧
    A.Count cfg s t = (Std.count (φ s) (φ t) : Nat) ∧ A.Cut cfg s t = some (Std.cut (φ s) (φ t)) ∧
    A.IndexAny cfg s t = Std.indexAny (φ s) (φ t) ∧ A.LastIndexAny cfg s t = Std.lastIndexAny (φ s) (φ t) ∧
    A.ContainsAny cfg s t = Std.containsAny (φ s) (φ t) := by
  rw [A.Index_eq, A.LastIndex_eq, A.Contains_eq, A.HasPrefix_eq, A.HasSuffix_eq, A.TrimPrefix_eq, A.CutPrefix_eq,
    A.TrimSuffix_eq, A.CutSuffix_eq, A.Count_eq, A.Cut_eq, A.IndexAny_eq, A.LastIndexAny_eq, A.ContainsAny_eq]
  have hsuf := Std.cls_hasSuffix hs ht
  have hany := Std.cls_indexAny hs ht
  exact ⟨Std.cls_index hs ht, Std.cls_lastIndex hs ht, Std.cls_contains hs ht, Std.cls_hasPrefix hs ht, hsuf.1,
    (Std.cls_trimPrefix hs ht).1, (Std.cls_trimPrefix hs ht).2, hsuf.2.1, hsuf.2.2, by rw [Std.cls_count hs ht],
    by rw [Std.cls_cut hs ht], hany.1, hany.2.1, hany.2.2⟩

/-- caseless class, Compare: UTF-8 preserves code point order, so `strings.Compare` on the bytes is the comparison of
    the (unfolded = folded) code point sequences -/
theorem caseless_compare (s t : Bytes) (hs : Caseless s) (ht : Caseless t) : S.compare s t = Std.compare s t := by
  unfold S.compare Std.compare
  rw [fruns_caseless s hs, fruns_caseless t ht]
  exact lexCmp_valid s t hs.1 ht.1

/-- caseless class, IndexRune / ContainsRune (any `int32`; a valid `r` must itself be caseless) -/
theorem caseless_indexRune (s : Bytes) (hs : Caseless s) (r : Int)
    (hr : S.validRuneI r = true → caseFold r.toNat = r.toNat) :
    S.indexRune s r = Std.indexRune s r ∧ S.containsRune s r = Std.containsRune s r := by
  have h := Std.cls_indexRune (cls_caseless s hs) r r rfl hr
  exact ⟨h, by unfold S.containsRune Std.containsRune; rw [h]; rfl⟩

/-- ASCII class, IndexRune / ContainsRune: the namesake on `ToLower(s)`, `unicode.ToLower(r)` -/
theorem ascii_indexRune (s : Bytes) (hs : IsASCII s) (r : Nat) (hr : r < 0x80) :
    S.indexRune s (r : Int) = Std.indexRune (toLower s) ((lower (UInt8.ofNat r)).toNat : Int) := by
  have hb : UInt8.ofNat r < 0x80 := by
    rw [UInt8.lt_iff_toNat_lt, ofNat_toNat_lt r (by omega)]; exact hr
  have hl := lower_lt _ hb
  have hln : (lower (UInt8.ofNat r)).toNat < 128 := by have := UInt8.lt_iff_toNat_lt.mp hl; simpa using this
  apply Std.cls_indexRune (cls_ascii s hs)
  · have v1 : S.validRuneI (r : Int) = true := by
      simp only [S.validRuneI, decide_eq_true_eq, Int.toNat_natCast]
      exact ⟨Int.natCast_nonneg _, Or.inl (by omega)⟩
    have v2 : S.validRuneI ((lower (UInt8.ofNat r)).toNat : Int) = true := by
      simp only [S.validRuneI, decide_eq_true_eq, Int.toNat_natCast]
      exact ⟨Int.natCast_nonneg _, Or.inl (by omega)⟩
    rw [v1, v2]
  · intro _
    simp only [Int.toNat_natCast]
    have := caseFold_lower (UInt8.ofNat r) hb
    rwa [ofNat_toNat_lt r (by omega)] at this

/-- byte searches: a non-letter byte (caseless class; any haystack) and the ASCII class -/
theorem indexByte_agrees (s : Bytes) (c : UInt8) :
    (S.isAlpha c = false → S.indexByte s c = Std.indexByte s c ∧ S.indexByteASCII s c = Std.indexByte s c ∧
        S.lastIndexByte s c = Std.lastIndexByte s c) ∧
    (IsASCII s → c < 0x80 → S.indexByte s c = Std.indexByte (toLower s) (lower c) ∧
        S.indexByteASCII s c = Std.indexByte (toLower s) (lower c) ∧
        S.lastIndexByte s c = Std.lastIndexByte (toLower s) (lower c)) :=
  ⟨Std.indexByte_plain s c, Std.indexByte_ascii s c⟩

/-- EqualFold needs no class: it equals `strings.EqualFold` on every pair of byte strings (C02) -/
theorem equalFold_agrees (s t : Bytes) : Std.equalFoldS s t = some (S.equalFold s t) := Std.equalFoldS_eq s t

example : S.equalFold [0x41, 0x62] [0x61, 0x42] = true := by decide +kernel
example : Std.index [0x78, 0xE4, 0xB8, 0x96, 0x21] [0xE4, 0xB8, 0x96] = 1 ∧ Std.count [0x61, 0x61, 0x61] [0x61, 0x61] = 1 := by
  decide +kernel
end C20
