import SC.Proofs.Valid
import SC.Proofs.FoldFacts
/-!
# C20 — drop-in agreement with package strings/bytes on caseless and ASCII text
-/
namespace C20
open Utf8 Spec Fold

/-- on ASCII-only text the folded rune sequence is the lower-cased byte sequence -/
theorem fruns_ascii : ∀ (s : Bytes), (∀ b ∈ s, b < 0x80) → S.fruns s = s.map (fun b => (lower b).toNat)
  | [], _ => by simp [S.fruns, fdec, dec_nil]
  | b :: s, h => by
    have hb := h b (List.mem_cons_self ..)
    have ih := fruns_ascii s (fun c hc => h c (List.mem_cons_of_mem _ hc))
    unfold S.fruns fdec at ih ⊢
    rw [dec_ascii b s hb]
    simp only [S.fold] at ih
    simp only [List.map_cons, S.fold, caseFold_lower b hb, ih]

theorem map_lower_inj (s t : Bytes) :
    s.map (fun b => (lower b).toNat) = t.map (fun b => (lower b).toNat) ↔ s.map lower = t.map lower := by
  induction s generalizing t with
  | nil => cases t <;> simp
  | cons a s ih =>
    cases t with
    | nil => simp
    | cons b t => simp only [List.map_cons, List.cons.injEq, ih, UInt8.toNat_inj]

theorem map_toNat_inj : ∀ (a b : Bytes), a.map UInt8.toNat = b.map UInt8.toNat → a = b
  | [], [], _ => rfl
  | [], _ :: _, h => by simp at h
  | _ :: _, [], h => by simp at h
  | x :: a, y :: b, h => by
    simp only [List.map_cons, List.cons.injEq] at h
    rw [UInt8.toNat_inj.mp h.1, map_toNat_inj a b h.2]

/-- ASCII arguments: EqualFold / Compare-equality is equality of the ToLower-ed bytes -/
theorem equalFold_ascii (s t : Bytes) (hs : ∀ b ∈ s, b < 0x80) (ht : ∀ b ∈ t, b < 0x80) :
    S.equalFold s t = true ↔ s.map lower = t.map lower := by
  unfold S.equalFold
  rw [beq_iff_eq, fruns_ascii s hs, fruns_ascii t ht, map_lower_inj]

/-- ASCII arguments: HasPrefix is `bytes.HasPrefix` on the ToLower-ed arguments -/
theorem hasPrefix_ascii (s t : Bytes) (hs : ∀ b ∈ s, b < 0x80) (ht : ∀ b ∈ t, b < 0x80) :
    S.hasPrefix s t = true ↔ t.map lower <+: s.map lower := by
  unfold S.hasPrefix S.prefixLen
  rw [fruns_ascii s hs, fruns_ascii t ht]
  have key : t.map (fun b => (lower b).toNat) <+: s.map (fun b => (lower b).toNat) ↔ t.map lower <+: s.map lower := by
    have e : ∀ l : Bytes, l.map (fun b => (lower b).toNat) = (l.map lower).map UInt8.toNat := by intro l; simp
    rw [e, e]
    constructor
    · intro h
      rw [List.prefix_iff_eq_take] at h ⊢
      have : ((t.map lower).map UInt8.toNat) = ((s.map lower).take (t.map lower).length).map UInt8.toNat := by
        rw [List.map_take]; simpa using h
      exact map_toNat_inj _ _ this
    · intro h; exact List.IsPrefix.map _ h
  by_cases hp : (t.map (fun b => (lower b).toNat)).isPrefixOf (s.map (fun b => (lower b).toNat)) = true
  · simp only [hp, if_true, Option.isSome_some, true_iff]; exact key.mp ((isPrefixOf_iff _ _).mp hp)
  · simp only [hp, Bool.false_eq_true, if_false, Option.isSome_none, false_iff]
    exact fun h => hp ((isPrefixOf_iff _ _).mpr (key.mpr h))

/-- code points with a trivial folding orbit fold to themselves, so on caseless text the folded
    rune sequence is the rune sequence -/
def Caseless (s : Bytes) : Prop := Valid s ∧ ∀ p ∈ dec s, caseFold p.1 = p.1
theorem fruns_caseless (s : Bytes) (h : Caseless s) : S.fruns s = (dec s).map (·.1) := by
  unfold S.fruns fdec
  apply List.map_congr_left
  intro p hp; exact h.2 p hp

example : S.equalFold [0x41, 0x62] [0x61, 0x42] = true := by decide +kernel
end C20
