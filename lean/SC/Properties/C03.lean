import SC.Proofs.CandThm
import SC.Proofs.FoldFacts
/-!
# C03 — code-point equivalence is exactly Unicode simple folding, for every code point

The tables are regenerated from `internal/tables/tables_go121.go` / `tables_go116.go` on every run
(`SC/Gen/Tables*.lean`), the orbit data from the installed toolchain's `unicode` package
(`SC/Gen/Unicode.lean`); every theorem below is re-checked by the kernel against that data.
The Go *function bodies* (`CaseFold`, `FoldMap`, …) are transliterated in `SC/Model/Fold.lean` and
compared with the real functions on **all** 0x110000 code points + int32 edges on every run.
-/
namespace C03
open Fold

/-- the package's equivalence (equal `CaseFold`) is exactly "same `unicode.SimpleFold` orbit", for
    every pair of values of the look-up's whole domain -/
theorem fold_equiv_iff_same_orbit (a b : Nat) : caseFold a = caseFold b ↔ orbMin a = orbMin b :=
  caseFold_eq_iff_orbMin_eq a b

/-- candidate completeness: the upper/lower pair (with the İ/ı special case) plus the extra folds
    that `Index` / `bruteForceIndexUnicode` try for a needle rune are exactly its orbit -/
theorem candidates_are_the_orbit (r c : Nat) : cand r c = true ↔ caseFold c = caseFold r := cand_iff r c

/-- every key and every value of the fold table is a valid code point other than U+FFFD -/
def cfSupportOK : Bool :=
  Gen.T121.cfTree.toList.all fun e =>
    (e.2.1 < 0xD800 || (0xDFFF < e.2.1 && e.2.1 ≤ 0x10FFFF)) && e.2.1 != 0xFFFD &&
    (e.2.2 < 0xD800 || (0xDFFF < e.2.2 && e.2.2 ≤ 0x10FFFF)) && e.2.2 != 0xFFFD
theorem cfSupportOK_true : cfSupportOK = true := by decide +kernel

/-- values outside the Unicode range, surrogates and U+FFFD fold only to themselves -/
theorem fold_outside (r : Nat) (h : 0x10FFFF < r ∨ (0xD800 ≤ r ∧ r ≤ 0xDFFF) ∨ r = 0xFFFD) : caseFold r = r := by
  apply caseFold_of_not_key
  intro hk
  unfold cfKeys at hk
  obtain ⟨e, he, rfl⟩ := List.mem_map.mp hk
  have := List.all_eq_true.mp cfSupportOK_true e he
  simp only [Bool.and_eq_true, Bool.or_eq_true, decide_eq_true_eq, bne_iff_ne, ne_eq] at this
  omega

/-- nothing else folds onto U+FFFD or onto an out-of-range value -/
theorem fold_into_outside (r : Nat) (h : caseFold r = 0xFFFD) : r = 0xFFFD := by
  rcases Decidable.em (caseFold r = r) with he | he
  · rw [he] at h; exact h
  · have hm := lookupOr_ne Gen.T121.cfTree (hashCF r) r (by
      have : caseFold r = lookupOr Gen.T121.cfTree (hashCF r) r := forceNat_eq _ _
      rwa [this] at he)
    have := List.all_eq_true.mp cfSupportOK_true _ hm
    have e2 : caseFold r = lookupOr Gen.T121.cfTree (hashCF r) r := forceNat_eq _ _
    simp only [Bool.and_eq_true, Bool.or_eq_true, decide_eq_true_eq, bne_iff_ne, ne_eq] at this
    rw [← e2] at this
    omega

/-- every entry of the four tables sits at the slot its hash selects (Unicode-15 file) -/
def slotsOK121 : Bool :=
  Gen.T121.cfTree.toList.all (fun e => hashCF e.2.1 == e.1) &&
  Gen.T121.fmTree.toList.all (fun e => hashFM e.2.1 == e.1) &&
  Gen.T121.fmeTree.toList.all (fun e => hashFME e.2.1 == e.1) &&
  Gen.T121.ulTree.toList.all (fun e => hashUL e.2.1 == e.1 || hashUL e.2.2 == e.1)
theorem slots121 : slotsOK121 = true := by decide +kernel

/-- same for the Unicode-13 file -/
def slotsOK116 : Bool :=
  Gen.T116.cfTree.toList.all (fun e => hashMul Gen.T116.cfSeed Gen.T116.cfShift e.2.1 == e.1) &&
  Gen.T116.fmTree.toList.all (fun e => hashMul Gen.T116.fmSeed Gen.T116.fmShift e.2.1 == e.1) &&
  Gen.T116.fmeTree.toList.all (fun e => hashMul Gen.T116.fmeSeed Gen.T116.fmeShift e.2.1 == e.1) &&
  Gen.T116.ulTree.toList.all (fun e => hashULOf Gen.T116.ulSeed Gen.T116.ulShift e.2.1 == e.1 ||
                                        hashULOf Gen.T116.ulSeed Gen.T116.ulShift e.2.2 == e.1)
theorem slots116 : slotsOK116 = true := by decide +kernel

/-- the Unicode-13 fold table is the Unicode-15 table restricted to its own keys (folding stability):
    every Unicode-13 entry is a Unicode-15 entry with the same target -/
def sub116OK : Bool := Gen.T116.cfTree.toList.all fun e => caseFold e.2.1 == e.2.2
theorem table116_subset_121 : sub116OK = true := by decide +kernel

/-- `UnicodeVersion` of the compiled table file equals the toolchain's `unicode.Version`, and the
    sha256 of each file's (From,To) pairs (recomputed by the translator exactly as gentables does)
    equals the hash recorded in `.tables.json` -/
theorem version_and_hashes :
    Gen.T121.unicodeVersion = Gen.Uni.version ∧
    Gen.Consts.recordedVersion121 = Gen.T121.unicodeVersion ∧
    Gen.Consts.recordedVersion116 = Gen.T116.unicodeVersion ∧
    Gen.Consts.computedHash121 = Gen.Consts.recordedHash121 ∧
    Gen.Consts.computedHash116 = Gen.Consts.recordedHash116 := by decide

/-- the instances named in the property -/
theorem kelvin_orbit : caseFold 0x4B = caseFold 0x6B ∧ caseFold 0x6B = caseFold 0x212A ∧
    caseFold 0x53 = caseFold 0x73 ∧ caseFold 0x73 = caseFold 0x17F := by decide +kernel
theorem dotted_dotless_alone (c : Nat) :
    (caseFold c = caseFold 0x130 ↔ c = 0x130) ∧ (caseFold c = caseFold 0x131 ↔ c = 0x131) := by
  have h1 : orbMin 0x130 = 0x130 ∧ orbMin 0x131 = 0x131 := by decide +kernel
  have k1 : 0x130 ∉ orbKeys ∧ 0x131 ∉ orbKeys := by decide +kernel
  constructor
  · rw [caseFold_eq_iff_orbMin_eq, h1.1]
    constructor
    · intro h
      by_cases hk : c ∈ orbKeys
      · have := (keyLaw_of_mem c hk).1; rw [h] at this
        exact absurd ((inK_iff _).mp this) k1.1
      · rw [orbMin_of_not_key c hk] at h; exact h
    · rintro rfl; exact h1.1
  · rw [caseFold_eq_iff_orbMin_eq, h1.2]
    constructor
    · intro h
      by_cases hk : c ∈ orbKeys
      · have := (keyLaw_of_mem c hk).1; rw [h] at this
        exact absurd ((inK_iff _).mp this) k1.2
      · rw [orbMin_of_not_key c hk] at h; exact h
    · rintro rfl; exact h1.2
end C03
