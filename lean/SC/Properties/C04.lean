import SC.Proofs.LexCmp
import SC.Proofs.CmpB
import SC.Proofs.FoldFacts
/-!
# C04 — Compare is a total preorder consistent with EqualFold

Everything follows from the refinement `A.Compare = lexCmp ∘ fruns` (both packages, arbitrary
bytes, the regenerated fold table) and textbook facts about lexicographic order.
-/
namespace C04
open Utf8 Fold

/-- the algorithm model of `Compare` (both packages) is the lexicographic comparison of the
    folded rune sequences — for **all** byte strings -/
theorem compare_refines (cfg : A.Cfg) (s t : Bytes) : A.Compare cfg s t = S.compare s t := by
  unfold A.Compare S.compare S.fruns S.fold
  cases cfg.pkg
  · exact cmpAscii_spec caseFold caseFold_idem' caseFold_lower s t
  · exact cmpAsciiB_spec caseFold caseFold_idem' caseFold_lower s t

/-- `Compare(s,t) == 0` iff `EqualFold(s,t)` iff the folded rune sequences coincide -/
theorem compare_zero_iff (cfg : A.Cfg) (s t : Bytes) :
    (A.Compare cfg s t = 0 ↔ A.EqualFold cfg s t = true) ∧
    (A.Compare cfg s t = 0 ↔ S.fruns s = S.fruns t) := by
  refine ⟨by simp [A.EqualFold], ?_⟩
  rw [compare_refines]; exact lexCmp_eq_zero _ _

/-- `Compare(s,t) == -Compare(t,s)` -/
theorem compare_antisymm (cfg : A.Cfg) (s t : Bytes) : A.Compare cfg s t = - A.Compare cfg t s := by
  rw [compare_refines, compare_refines]; exact lexCmp_antisymm _ _

/-- transitivity -/
theorem compare_trans (cfg : A.Cfg) (s t u : Bytes)
    (h1 : A.Compare cfg s t ≤ 0) (h2 : A.Compare cfg t u ≤ 0) : A.Compare cfg s u ≤ 0 := by
  rw [compare_refines] at *; exact lexCmp_trans _ _ _ h1 h2

/-- the result is -1, 0 or 1 -/
theorem compare_range (cfg : A.Cfg) (s t : Bytes) :
    A.Compare cfg s t = -1 ∨ A.Compare cfg s t = 0 ∨ A.Compare cfg s t = 1 := by
  rw [compare_refines]; exact lexCmp_range _ _

/-- replacing either argument by a fold-equal string does not change the result -/
theorem compare_congr (cfg : A.Cfg) (s s' t t' : Bytes)
    (hs : A.EqualFold cfg s s' = true) (ht : A.EqualFold cfg t t' = true) :
    A.Compare cfg s t = A.Compare cfg s' t' := by
  have e1 := ((compare_zero_iff cfg s s').2).mp (((compare_zero_iff cfg s s').1).mpr hs)
  have e2 := ((compare_zero_iff cfg t t').2).mp (((compare_zero_iff cfg t t').1).mpr ht)
  simp only [compare_refines, S.compare, e1, e2]

/-- the sign is decided at the first position where the folded runes differ; a proper
    fold-prefix sorts first (this *is* `lexCmp`; stated on the first differing position) -/
theorem compare_first_difference (cfg : A.Cfg) (s t : Bytes) (p : List Nat) (a b : Nat) (x y : List Nat)
    (hs : S.fruns s = p ++ a :: x) (ht : S.fruns t = p ++ b :: y) (hab : a ≠ b) :
    A.Compare cfg s t = if a < b then -1 else 1 := by
  rw [compare_refines, S.compare, hs, ht]
  clear hs ht
  induction p with
  | nil => simp [lexCmp, hab]
  | cons c p ih => simpa [lexCmp] using ih
theorem compare_prefix_first (cfg : A.Cfg) (s t : Bytes) (b : Nat) (y : List Nat)
    (ht : S.fruns t = S.fruns s ++ b :: y) : A.Compare cfg s t = -1 := by
  rw [compare_refines, S.compare, ht]
  clear ht
  induction S.fruns s with
  | nil => simp [lexCmp]
  | cons c p ih => simpa [lexCmp] using ih

/-- on ASCII the order is byte order of the lower-cased text -/
theorem compare_ascii_fold (b : UInt8) (h : b < 0x80) : S.fold b.toNat = (lower b).toNat :=
  caseFold_lower b h

-- the premises are satisfiable and the statements non-trivial: concrete instances
example : A.Compare {} [0x4B] [0xE2, 0x84, 0xAA] = 0 := by decide +kernel
example : A.Compare {pkg := .byt} [0xFF] [0xEF, 0xBF, 0xBD] = 0 := by decide +kernel
example : A.Compare {} [0x61] [0x42] = -1 ∧ A.Compare {} [0x42] [0x61] = 1 := by decide +kernel
end C04
