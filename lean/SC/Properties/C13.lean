import SC.Proofs.KernSmall
import SC.Proofs.KernBlocks
import SC.Model.AsmShape
import SC.Gen.AsmFacts
import SC.Proofs.AsmSmall
import SC.Proofs.AsmLoop
import SC.Proofs.AsmCountLoop
/-!
# C13 — SIMD byte kernels equal their scalar definition at every length and alignment

`Kern.small` / `Kern.sseLoop` model the `len < 16` path (with its page test) and the 16-byte block
loop with the overlapping last block of `indexbytebody`, as functions of an arbitrary memory
`mem : Nat → UInt8`, base address and length, returning the result and the list of loads.
-/
namespace C13
open Kern

/-- the block loop returns the scalar definition for every memory, base and length ≥ 16 -/
theorem sse_loop_is_scalar (p : UInt8 → Bool) (mem : Mem) (base len : Nat) (hlen : 16 ≤ len) :
    sseLoop p mem base (len - 16) (len / 16 + 1) 0 = specIndex p mem base len :=
  sseLoop_correct p mem base len hlen (len / 16 + 1) 0 (by omega) (by omega) (fun i hi => by omega)

/-- the small path returns the scalar definition for every memory, base (alignment) and length < 16 -/
theorem small_is_scalar (p : UInt8 → Bool) (mem : Mem) (base len : Nat) (hlen : len < 16) :
    (small p mem base len).1 = specIndex p mem base len := small_correct p mem base len hlen

/-- every byte the small path loads lies in a 4096-byte page that contains a byte of the argument:
    no load can fault even when the argument abuts an unmapped page -/
theorem small_never_faults (p : UInt8 → Bool) (mem : Mem) (base len : Nat) (hlen : len < 16) (h0 : 0 < len) :
    ∀ ld ∈ (small p mem base len).2, ∀ a, ld.1 ≤ a → a < ld.1 + ld.2 →
      ∃ b, base ≤ b ∧ b < base + len ∧ a / 4096 = b / 4096 := small_loads_safe p mem base len hlen h0

/-- **tie to the source**: the instruction shape (mnemonics and integer operands per TEXT symbol and label) of the
    three amd64 kernels in the working tree is the one the block model was written against -/
theorem asm_shape : Gen.Asm.shape = Kern.expectedShape := eq_of_beq (by decide +kernel)

/-- block geometries -/
def sse16 : LoopP := ⟨16, 16, 16⟩
def avx32 : LoopP := ⟨32, 32, 32⟩
def avx64 : LoopP := ⟨64, 64, 64⟩

/-! #### the geometries, read off the regenerated shape -/

def group (sh : List (String × String × String × List (String × List Int))) (sym label : String) : List (String × List Int) :=
  match sh.find? (fun g => g.2.1 == sym && g.2.2.1 == label) with
  | some g => g.2.2.2
  | none => []

/-- the loop body: instructions up to the compare that closes the loop -/
def body (ins : List (String × List Int)) : List (String × List Int) := ins.takeWhile (fun i => i.1 != "CMPQ")
def countOf (ins : List (String × List Int)) (mn : String) : Nat := (ins.filter (fun i => i.1 == mn)).length
/-- the immediate of the last `mn` instruction that has one -/
def immOf (ins : List (String × List Int)) (mn : String) : Nat :=
  match (ins.filter (fun i => i.1 == mn && i.2.length == 1)).getLast? with
  | some i => (i.2.headD 0).toNat
  | none => 0
/-- `LEAQ -d(SI)(BX*1), …` : the distance of the last block from the end -/
def lastOffOf (ins : List (String × List Int)) : Nat :=
  match ins.find? (fun i => i.1 == "LEAQ" && (i.2.headD 0) < 0) with
  | some i => (-(i.2.headD 0)).toNat
  | none => 0

/-- SSE loop of a kernel body: bytes per iteration (16 per `MOVOU`), step (`ADDQ $n, DI`), last-block offset -/
def sseOf (sh : List (String × String × String × List (String × List Int))) (sym : String) : LoopP :=
  ⟨16 * countOf (body (group sh sym "sseloop")) "MOVOU", immOf (body (group sh sym "sseloop")) "ADDQ", lastOffOf (group sh sym "sse")⟩
/-- AVX2 loop of a kernel body: 32 bytes per `VMOVDQU` of one iteration -/
def avxOf (sh : List (String × String × String × List (String × List Int))) (sym : String) : LoopP :=
  ⟨32 * countOf (body (group sh sym "avx2_loop")) "VMOVDQU", immOf (body (group sh sym "avx2_loop")) "ADDQ", lastOffOf (group sh sym "avx2")⟩
/-- the `len < 16` path: (`LEAQ n(SI)`, `TESTW $mask`) of label `small` and the displacement of the end-of-page load -/
def smallOf (sh : List (String × String × String × List (String × List Int))) (sym : String) : Nat × Nat × Int :=
  (immOf (group sh sym "small") "LEAQ", immOf (group sh sym "small") "TESTW",
   ((group sh sym "endofpage").find? (fun i => i.1 == "MOVOU")).elim 0 (fun i => i.2.headD 0))

/-- **extracted from the working tree**: every search body steps by exactly the width it loads and starts its last
    block one width before the end (SSE 16, AVX2 32); every counting body likewise (SSE 16, AVX2 64); every `len < 16`
    path tests `(base+16) & 0xff0` and loads the last 16 bytes at the end of a page -/
theorem extracted_geometry :
    (∀ sym ∈ ["indexbytebody", "indexbytebodyCase", "indexByteBodyNonASCII"],
        sseOf Gen.Asm.shape sym = sse16 ∧ avxOf Gen.Asm.shape sym = avx32 ∧ smallOf Gen.Asm.shape sym = (16, 0xff0, -16)) ∧
    (∀ sym ∈ ["countbody", "countbodyCase"],
        sseOf Gen.Asm.shape sym = sse16 ∧ avxOf Gen.Asm.shape sym = avx64 ∧ smallOf Gen.Asm.shape sym = (16, 0xff0, -16)) := by
  decide +kernel

/-- every search loop (SSE 16-byte and AVX2 32-byte blocks, of `indexbytebody`, `indexbytebodyCase` and
    `indexByteBodyNonASCII`) returns the scalar definition and loads only bytes of the argument -/
theorem search_loops (P : LoopP) (hP : P = sse16 ∨ P = avx32) (p : UInt8 → Bool) (mem : Mem) (base len : Nat)
    (hlen : P.width ≤ len) :
    (idxLoop P p mem base len (len + 1) 0).1 = specIndex p mem base len ∧
    ∀ ld ∈ (idxLoop P p mem base len (len + 1) 0).2, base ≤ ld.1 ∧ ld.1 + ld.2 ≤ base + len := by
  have hok : P.ok := by rcases hP with h | h <;> subst h <;> exact ⟨rfl, rfl, by decide⟩
  have hw : 1 ≤ P.width := hok.2.2
  apply idxLoop_correct P hok p mem base len hlen (len + 1) 0 (by omega)
  · have : len + 1 ≤ (len + 1) * P.width := Nat.le_mul_of_pos_right _ hw
    omega
  · intro i hi; omega

/-- every counting loop (SSE 16-byte, AVX2 64-byte iterations, of `countbody` and `countbodyCase`, with the masked
    overlapping tail) returns the number of matching bytes and loads only bytes of the argument -/
theorem count_loops (P : LoopP) (hP : P = sse16 ∨ P = avx64) (p : UInt8 → Bool) (mem : Mem) (base len : Nat)
    (hlen : P.width ≤ len) :
    (cntLoop P p mem base len (len + 1) 0 0).1 = specCount p mem base len ∧
    ∀ ld ∈ (cntLoop P p mem base len (len + 1) 0 0).2, base ≤ ld.1 ∧ ld.1 + ld.2 ≤ base + len := by
  have hok : P.ok := by rcases hP with h | h <;> subst h <;> exact ⟨rfl, rfl, by decide⟩
  have hw : 1 ≤ P.width := hok.2.2
  have h := cntLoop_correct P hok p mem base len hlen (len + 1) 0 0 (by omega)
    (by have : len + 1 ≤ (len + 1) * P.width := Nat.le_mul_of_pos_right _ hw
        simp only [Nat.add_zero]; omega) (by simp [cntBlk])
  simpa using h

/-- the two loop theorems, stated for the geometry **extracted from the working tree**: whatever `Gen.Asm.shape` says the
    SSE / AVX2 loop of a kernel body does (load width, step, last-block offset), a loop with that geometry returns the
    scalar definition and never loads outside the argument -/
theorem source_search_loops (sym : String) (hs : sym ∈ ["indexbytebody", "indexbytebodyCase", "indexByteBodyNonASCII"])
    (P : LoopP) (hP : P = sseOf Gen.Asm.shape sym ∨ P = avxOf Gen.Asm.shape sym)
    (p : UInt8 → Bool) (mem : Mem) (base len : Nat) (hlen : P.width ≤ len) :
    (idxLoop P p mem base len (len + 1) 0).1 = specIndex p mem base len ∧
    ∀ ld ∈ (idxLoop P p mem base len (len + 1) 0).2, base ≤ ld.1 ∧ ld.1 + ld.2 ≤ base + len := by
  have hg := extracted_geometry.1 sym hs
  exact search_loops P (by rcases hP with h | h; exact Or.inl (h.trans hg.1); exact Or.inr (h.trans hg.2.1)) p mem base len hlen

theorem source_count_loops (sym : String) (hs : sym ∈ ["countbody", "countbodyCase"])
    (P : LoopP) (hP : P = sseOf Gen.Asm.shape sym ∨ P = avxOf Gen.Asm.shape sym)
    (p : UInt8 → Bool) (mem : Mem) (base len : Nat) (hlen : P.width ≤ len) :
    (cntLoop P p mem base len (len + 1) 0 0).1 = specCount p mem base len ∧
    ∀ ld ∈ (cntLoop P p mem base len (len + 1) 0 0).2, base ≤ ld.1 ∧ ld.1 + ld.2 ≤ base + len := by
  have hg := extracted_geometry.2 sym hs
  exact count_loops P (by rcases hP with h | h; exact Or.inl (h.trans hg.1); exact Or.inr (h.trans hg.2.1)) p mem base len hlen

/-! #### instruction level: the `len < 16` search paths as they stand in the working tree

`Gen.Asm.small_*` are the blocks `small`, `endofpage`, `failure` of the three search bodies, **regenerated instruction
by instruction** (mnemonics, registers, displacements, immediates, branch targets) by `tools/asmfacts.py`; `Asm.run` is
an interpreter for that subset of amd64 (`SC/Model/Asm.lean`).  From the state the bodies' prologues establish (`SI` =
data, `BX` = length, the needle byte in every lane of `X0`), running the real instruction sequence stores the scalar
definition's answer through `R8` and performs one 16-byte load that cannot fault — for every memory, base address,
length below 16 and needle byte.  (Not modelled: the three-instruction lane broadcast of the prologue, the ABI wrappers.) -/

theorem instruction_level_small (mem : Mem) (base len : Nat) (c : UInt8) (junk : Asm.Reg → Nat) (jx : Nat → UInt8) (jz jc : Bool)
    (h16 : len < 16) (hb : base + 32 < 2 ^ 64) :
    (Asm.runSmall Gen.Asm.small_indexbytebody (Asm.init mem base len c junk jx jz jc)).out = some (specIndex (fun b => b == c) mem base len) ∧
    (Asm.runSmall Gen.Asm.small_indexbytebodyCase (Asm.init mem base len c junk jx jz jc)).out =
        some (specIndex (fun b => (b ||| 0x20) == c) mem base len) ∧
    (Asm.runSmall Gen.Asm.small_indexByteBodyNonASCII (Asm.init mem base len c junk jx jz jc)).out =
        some (specIndex (fun b => decide (b ≥ 0x80)) mem base len) := by
  refine ⟨?_, ?_, ?_⟩
  · rw [(Asm.small_indexbytebody_correct mem base len c junk jx jz jc h16 hb).1, small_correct _ mem base len h16]
  · rw [(Asm.small_indexbytebodyCase_correct mem base len c junk jx jz jc h16 hb).1, small_correct _ mem base len h16]
  · rw [(Asm.small_indexByteBodyNonASCII_correct mem base len c junk jx jz jc h16 hb).1, small_correct _ mem base len h16]

/-- every load those instruction sequences perform lies in a 4096-byte page that holds a byte of the argument -/
theorem instruction_level_small_safe (mem : Mem) (base len : Nat) (c : UInt8) (junk : Asm.Reg → Nat) (jx : Nat → UInt8) (jz jc : Bool)
    (h16 : len < 16) (h0 : 0 < len) (hb : base + 32 < 2 ^ 64) :
    ∀ prog ∈ [Gen.Asm.small_indexbytebody, Gen.Asm.small_indexbytebodyCase, Gen.Asm.small_indexByteBodyNonASCII],
    ∀ ld ∈ (Asm.runSmall prog (Asm.init mem base len c junk jx jz jc)).loads, ∀ a, ld.1 ≤ a → a < ld.1 + ld.2 →
      ∃ b, base ≤ b ∧ b < base + len ∧ a / 4096 = b / 4096 := by
  intro prog hprog
  simp only [List.mem_cons, List.mem_nil_iff, or_false] at hprog
  rcases hprog with rfl | rfl | rfl
  · rw [(Asm.small_indexbytebody_correct mem base len c junk jx jz jc h16 hb).2]; exact small_loads_safe _ mem base len h16 h0
  · rw [(Asm.small_indexbytebodyCase_correct mem base len c junk jx jz jc h16 hb).2]; exact small_loads_safe _ mem base len h16 h0
  · rw [(Asm.small_indexByteBodyNonASCII_correct mem base len c junk jx jz jc h16 hb).2]; exact small_loads_safe _ mem base len h16 h0

/-- **the SSE search loops, instruction by instruction.**  `Gen.Asm.sse_*` are the labels `sse … ssesuccess` of the three
    search bodies as they stand in the working tree (execution falls through between labels).  From any machine state
    with `SI` = `DI` = data, `BX` = length ≥ 16 and the lanes the prologue sets, running them stores the scalar definition's
    answer through `R8`, and every 16-byte load lies inside the argument — for every memory, base, length and needle byte.
    The proof is a loop invariant over machine states (`Proofs/AsmLoop.lean`), by induction on the blocks still to examine. -/
theorem instruction_level_sse_search (mem : Mem) (base len : Nat) (c : UInt8) (s : Asm.St) (f : Nat)
    (h16 : 16 ≤ len) (hb : base + len + 32 < 2 ^ 63)
    (hSI : s.r .SI = base) (hDI : s.r .DI = base) (hBX : s.r .BX = len) (hX0 : ∀ j, s.x .X0 j = c) (hX2 : ∀ j, s.x .X2 j = 0x20)
    (hmem : s.mem = mem) (hout : s.out = none) (hl : s.loads = []) (hf : 9 * (len + 1) + 16 ≤ f) :
    ((Asm.run Gen.Asm.sse_indexbytebody f (Asm.block Gen.Asm.sse_indexbytebody "sse") s).out =
        some (specIndex (fun b => b == c) mem base len) ∧
      ∀ ld ∈ (Asm.run Gen.Asm.sse_indexbytebody f (Asm.block Gen.Asm.sse_indexbytebody "sse") s).loads,
        base ≤ ld.1 ∧ ld.1 + ld.2 ≤ base + len) ∧
    ((Asm.run Gen.Asm.sse_indexbytebodyCase f (Asm.block Gen.Asm.sse_indexbytebodyCase "sse") s).out =
        some (specIndex (fun b => (b ||| 0x20) == c) mem base len) ∧
      ∀ ld ∈ (Asm.run Gen.Asm.sse_indexbytebodyCase f (Asm.block Gen.Asm.sse_indexbytebodyCase "sse") s).loads,
        base ≤ ld.1 ∧ ld.1 + ld.2 ≤ base + len) ∧
    ((Asm.run Gen.Asm.sse_indexByteBodyNonASCII f (Asm.block Gen.Asm.sse_indexByteBodyNonASCII "sse") s).out =
        some (specIndex (fun b => decide (b ≥ 0x80)) mem base len) ∧
      ∀ ld ∈ (Asm.run Gen.Asm.sse_indexByteBodyNonASCII f (Asm.block Gen.Asm.sse_indexByteBodyNonASCII "sse") s).loads,
        base ≤ ld.1 ∧ ld.1 + ld.2 ≤ base + len) :=
  ⟨Asm.sse_indexbytebody_correct mem base len c s f h16 hb hSI hDI hBX hX0 hX2 hmem hout hl (by omega),
   Asm.sse_indexbytebodyCase_correct mem base len c s f h16 hb hSI hDI hBX hX0 hX2 hmem hout hl (by omega),
   Asm.sse_indexByteBodyNonASCII_correct mem base len c s f h16 hb hSI hDI hBX (fun _ => trivial) hX2 hmem hout hl (by omega)⟩

/-- **the SSE counting loops, instruction by instruction** (labels `sse … end` of `countbody` and `countbodyCase`): block
    loop with the accumulator in `R12`, then the overlapping last block masked to its top `len mod 16` lanes
    (`ANDQ $15` / `MOVQ $0xFFFF; SARQ; SALQ` / `ANDQ; POPCNTL`).  The stored count is the scalar count and every load lies
    inside the argument, for every memory, base, length ≥ 16 and needle byte. -/
theorem instruction_level_sse_count (mem : Mem) (base len : Nat) (c : UInt8) (s : Asm.St) (f : Nat)
    (h16 : 16 ≤ len) (hb : base + len + 32 < 2 ^ 62)
    (hSI : s.r .SI = base) (hDI : s.r .DI = base) (hBX : s.r .BX = len) (hR12 : s.r .R12 = 0)
    (hX0 : ∀ j, s.x .X0 j = c) (hX2 : ∀ j, s.x .X2 j = 0x20)
    (hmem : s.mem = mem) (hout : s.out = none) (hl : s.loads = []) (hf : 9 * (len + 1) + 24 ≤ f) :
    ((Asm.run Gen.Asm.ssecnt_countbody f (Asm.block Gen.Asm.ssecnt_countbody "sse") s).out =
        some ((specCount (fun b => b == c) mem base len : Nat) : Int) ∧
      ∀ ld ∈ (Asm.run Gen.Asm.ssecnt_countbody f (Asm.block Gen.Asm.ssecnt_countbody "sse") s).loads,
        base ≤ ld.1 ∧ ld.1 + ld.2 ≤ base + len) ∧
    ((Asm.run Gen.Asm.ssecnt_countbodyCase f (Asm.block Gen.Asm.ssecnt_countbodyCase "sse") s).out =
        some ((specCount (fun b => (b ||| 0x20) == c) mem base len : Nat) : Int) ∧
      ∀ ld ∈ (Asm.run Gen.Asm.ssecnt_countbodyCase f (Asm.block Gen.Asm.ssecnt_countbodyCase "sse") s).loads,
        base ≤ ld.1 ∧ ld.1 + ld.2 ≤ base + len) :=
  ⟨Asm.ssecnt_countbody_correct mem base len c s f h16 hb hSI hDI hBX hR12 hX0 hX2 hmem hout hl hf,
   Asm.ssecnt_countbodyCase_correct mem base len c s f h16 hb hSI hDI hBX hR12 hX0 hX2 hmem hout hl hf⟩

/-- the `len < 16` counting paths of `countbody` and `countbodyCase`, instruction by instruction: the count stored through
    `R8` is the scalar count, and the single load cannot fault -/
theorem instruction_level_count_small (mem : Mem) (base len : Nat) (c : UInt8) (junk : Asm.Reg → Nat) (jx : Nat → UInt8) (jz jc : Bool)
    (h16 : len < 16) (hb : base + 32 < 2 ^ 64) :
    (Asm.runSmall Gen.Asm.small_countbody (Asm.init mem base len c junk jx jz jc)).out =
        some ((specCount (fun b => b == c) mem base len : Nat) : Int) ∧
    (Asm.runSmall Gen.Asm.small_countbodyCase (Asm.init mem base len c junk jx jz jc)).out =
        some ((specCount (fun b => (b ||| 0x20) == c) mem base len : Nat) : Int) ∧
    (0 < len → ∀ prog ∈ [Gen.Asm.small_countbody, Gen.Asm.small_countbodyCase],
      ∀ ld ∈ (Asm.runSmall prog (Asm.init mem base len c junk jx jz jc)).loads, ∀ a, ld.1 ≤ a → a < ld.1 + ld.2 →
        ∃ b, base ≤ b ∧ b < base + len ∧ a / 4096 = b / 4096) := by
  refine ⟨?_, ?_, ?_⟩
  · rw [(Asm.small_countbody_correct mem base len c junk jx jz jc h16 hb).1, cntSmall_correct _ mem base len h16]
  · rw [(Asm.small_countbodyCase_correct mem base len c junk jx jz jc h16 hb).1, cntSmall_correct _ mem base len h16]
  · intro h0 prog hprog
    simp only [List.mem_cons, List.mem_nil_iff, or_false] at hprog
    rcases hprog with rfl | rfl
    · rw [(Asm.small_countbody_correct mem base len c junk jx jz jc h16 hb).2]; exact cntSmall_loads_safe _ mem base len h16 h0
    · rw [(Asm.small_countbodyCase_correct mem base len c junk jx jz jc h16 hb).2]; exact cntSmall_loads_safe _ mem base len h16 h0

/-- the `len < 16` counting path: scalar definition, and no load can fault next to an unmapped page -/
theorem count_small (p : UInt8 → Bool) (mem : Mem) (base len : Nat) (hlen : len < 16) :
    (cntSmall p mem base len).1 = specCount p mem base len ∧
    (0 < len → ∀ ld ∈ (cntSmall p mem base len).2, ∀ a, ld.1 ≤ a → a < ld.1 + ld.2 →
      ∃ b, base ≤ b ∧ b < base + len ∧ a / 4096 = b / 4096) :=
  ⟨cntSmall_correct p mem base len hlen, cntSmall_loads_safe p mem base len hlen⟩

/-- the mask arithmetic the kernels use to select lanes (all shift counts) -/
theorem lane_masks :
    (∀ c : Fin 17, ∀ j : Fin 16, ((0xFFFF >>> c.val) <<< c.val).testBit j.val = decide (c.val ≤ j.val)) ∧
    (∀ n : Fin 16, ∀ j : Fin 16, ((1 <<< n.val) - 1).testBit j.val = decide (j.val < n.val)) ∧
    (∀ c : Fin 65, ∀ j : Fin 64, ((0xFFFFFFFFFFFFFFFF <<< c.val) % 2 ^ 64).testBit j.val = decide (c.val ≤ j.val)) :=
  ⟨highMask16, lowMask16, highMask64⟩
end C13
