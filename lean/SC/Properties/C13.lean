import SC.Proofs.KernSmall
import SC.Proofs.KernBlocks
import SC.Model.AsmShape
import SC.Gen.AsmFacts
import SC.Proofs.AsmWrap
import SC.Model.Spec
/-!
# C13 — SIMD byte kernels equal their scalar definition at every length and alignment

`Kern.small` / `Kern.sseLoop` model the `len < 16` path (with its page test) and the 16-byte block
loop with the overlapping last block of `indexbytebody`, as functions of an arbitrary memory
`mem : Nat → UInt8`, base address and length, returning the result and the list of loads.
-/
namespace C13
open Kern

/-- the block loop returns the scalar definition for every memory, base and length ≥ 16 -/
theorem sse_loop_is_scalar (p : UInt8 → Bool) (mem : Mem) (base len : Nat) (hlen : 16 ≤ len) :
    sseLoop p mem base (len - 16) (len / 16 + 1) 0 = specIndex p mem base len :=
  sseLoop_correct p mem base len hlen (len / 16 + 1) 0 (by omega) (by omega) (fun i hi => by omega)

/-- the small path returns the scalar definition for every memory, base (alignment) and length < 16 -/
theorem small_is_scalar (p : UInt8 → Bool) (mem : Mem) (base len : Nat) (hlen : len < 16) :
    (small p mem base len).1 = specIndex p mem base len := small_correct p mem base len hlen

/-- every byte the small path loads lies in a 4096-byte page that contains a byte of the argument:
    no load can fault even when the argument abuts an unmapped page -/
theorem small_never_faults (p : UInt8 → Bool) (mem : Mem) (base len : Nat) (hlen : len < 16) (h0 : 0 < len) :
    ∀ ld ∈ (small p mem base len).2, ∀ a, ld.1 ≤ a → a < ld.1 + ld.2 →
      ∃ b, base ≤ b ∧ b < base + len ∧ a / 4096 = b / 4096 := small_loads_safe p mem base len hlen h0

/-- **tie to the source**: the instruction shape (mnemonics and integer operands per TEXT symbol and label) of the
    three amd64 kernels in the working tree is the one the block model was written against -/
theorem asm_shape : Gen.Asm.shape = Kern.expectedShape := eq_of_beq (by decide +kernel)

/-- block geometries -/
def sse16 : LoopP := ⟨16, 16, 16⟩
def avx32 : LoopP := ⟨32, 32, 32⟩
def avx64 : LoopP := ⟨64, 64, 64⟩

/-! #### the geometries, read off the regenerated shape -/

def group (sh : List (String × String × String × List (String × List Int))) (sym label : String) : List (String × List Int) :=
  match sh.find? (fun g => g.2.1 == sym && g.2.2.1 == label) with
  | some g => g.2.2.2
  | none => []

/-- the loop body: instructions up to the compare that closes the loop -/
def body (ins : List (String × List Int)) : List (String × List Int) := ins.takeWhile (fun i => i.1 != "CMPQ")
def countOf (ins : List (String × List Int)) (mn : String) : Nat := (ins.filter (fun i => i.1 == mn)).length
/-- the immediate of the last `mn` instruction that has one -/
def immOf (ins : List (String × List Int)) (mn : String) : Nat :=
  match (ins.filter (fun i => i.1 == mn && i.2.length == 1)).getLast? with
  | some i => (i.2.headD 0).toNat
  | none => 0
/-- `LEAQ -d(SI)(BX*1), …` : the distance of the last block from the end -/
def lastOffOf (ins : List (String × List Int)) : Nat :=
  match ins.find? (fun i => i.1 == "LEAQ" && (i.2.headD 0) < 0) with
  | some i => (-(i.2.headD 0)).toNat
  | none => 0

/-- SSE loop of a kernel body: bytes per iteration (16 per `MOVOU`), step (`ADDQ $n, DI`), last-block offset -/
def sseOf (sh : List (String × String × String × List (String × List Int))) (sym : String) : LoopP :=
  ⟨16 * countOf (body (group sh sym "sseloop")) "MOVOU", immOf (body (group sh sym "sseloop")) "ADDQ", lastOffOf (group sh sym "sse")⟩
/-- AVX2 loop of a kernel body: 32 bytes per `VMOVDQU` of one iteration -/
def avxOf (sh : List (String × String × String × List (String × List Int))) (sym : String) : LoopP :=
  ⟨32 * countOf (body (group sh sym "avx2_loop")) "VMOVDQU", immOf (body (group sh sym "avx2_loop")) "ADDQ", lastOffOf (group sh sym "avx2")⟩
/-- the `len < 16` path: (`LEAQ n(SI)`, `TESTW $mask`) of label `small` and the displacement of the end-of-page load -/
def smallOf (sh : List (String × String × String × List (String × List Int))) (sym : String) : Nat × Nat × Int :=
  (immOf (group sh sym "small") "LEAQ", immOf (group sh sym "small") "TESTW",
   ((group sh sym "endofpage").find? (fun i => i.1 == "MOVOU")).elim 0 (fun i => i.2.headD 0))

/-- **extracted from the working tree**: every search body steps by exactly the width it loads and starts its last
    block one width before the end (SSE 16, AVX2 32); every counting body likewise (SSE 16, AVX2 64); every `len < 16`
    path tests `(base+16) & 0xff0` and loads the last 16 bytes at the end of a page -/
theorem extracted_geometry :
    (∀ sym ∈ ["indexbytebody", "indexbytebodyCase", "indexByteBodyNonASCII"],
        sseOf Gen.Asm.shape sym = sse16 ∧ avxOf Gen.Asm.shape sym = avx32 ∧ smallOf Gen.Asm.shape sym = (16, 0xff0, -16)) ∧
    (∀ sym ∈ ["countbody", "countbodyCase"],
        sseOf Gen.Asm.shape sym = sse16 ∧ avxOf Gen.Asm.shape sym = avx64 ∧ smallOf Gen.Asm.shape sym = (16, 0xff0, -16)) := by
  decide +kernel

/-- every search loop (SSE 16-byte and AVX2 32-byte blocks, of `indexbytebody`, `indexbytebodyCase` and
    `indexByteBodyNonASCII`) returns the scalar definition and loads only bytes of the argument -/
theorem search_loops (P : LoopP) (hP : P = sse16 ∨ P = avx32) (p : UInt8 → Bool) (mem : Mem) (base len : Nat)
    (hlen : P.width ≤ len) :
    (idxLoop P p mem base len (len + 1) 0).1 = specIndex p mem base len ∧
    ∀ ld ∈ (idxLoop P p mem base len (len + 1) 0).2, base ≤ ld.1 ∧ ld.1 + ld.2 ≤ base + len := by
  have hok : P.ok := by rcases hP with h | h <;> subst h <;> exact ⟨rfl, rfl, by decide⟩
  have hw : 1 ≤ P.width := hok.2.2
  apply idxLoop_correct P hok p mem base len hlen (len + 1) 0 (by omega)
  · have : len + 1 ≤ (len + 1) * P.width := Nat.le_mul_of_pos_right _ hw
    omega
  · intro i hi; omega

/-- every counting loop (SSE 16-byte, AVX2 64-byte iterations, of `countbody` and `countbodyCase`, with the masked
    overlapping tail) returns the number of matching bytes and loads only bytes of the argument -/
theorem count_loops (P : LoopP) (hP : P = sse16 ∨ P = avx64) (p : UInt8 → Bool) (mem : Mem) (base len : Nat)
    (hlen : P.width ≤ len) :
    (cntLoop P p mem base len (len + 1) 0 0).1 = specCount p mem base len ∧
    ∀ ld ∈ (cntLoop P p mem base len (len + 1) 0 0).2, base ≤ ld.1 ∧ ld.1 + ld.2 ≤ base + len := by
  have hok : P.ok := by rcases hP with h | h <;> subst h <;> exact ⟨rfl, rfl, by decide⟩
  have hw : 1 ≤ P.width := hok.2.2
  have h := cntLoop_correct P hok p mem base len hlen (len + 1) 0 0 (by omega)
    (by have : len + 1 ≤ (len + 1) * P.width := Nat.le_mul_of_pos_right _ hw
        simp only [Nat.add_zero]; omega) (by simp [cntBlk])
  simpa using h

/-- the two loop theorems, stated for the geometry **extracted from the working tree**: whatever `Gen.Asm.shape` says the
    SSE / AVX2 loop of a kernel body does (load width, step, last-block offset), a loop with that geometry returns the
    scalar definition and never loads outside the argument -/
theorem source_search_loops (sym : String) (hs : sym ∈ ["indexbytebody", "indexbytebodyCase", "indexByteBodyNonASCII"])
    (P : LoopP) (hP : P = sseOf Gen.Asm.shape sym ∨ P = avxOf Gen.Asm.shape sym)
    (p : UInt8 → Bool) (mem : Mem) (base len : Nat) (hlen : P.width ≤ len) :
    (idxLoop P p mem base len (len + 1) 0).1 = specIndex p mem base len ∧
    ∀ ld ∈ (idxLoop P p mem base len (len + 1) 0).2, base ≤ ld.1 ∧ ld.1 + ld.2 ≤ base + len := by
  have hg := extracted_geometry.1 sym hs
  exact search_loops P (by rcases hP with h | h; exact Or.inl (h.trans hg.1); exact Or.inr (h.trans hg.2.1)) p mem base len hlen

theorem source_count_loops (sym : String) (hs : sym ∈ ["countbody", "countbodyCase"])
    (P : LoopP) (hP : P = sseOf Gen.Asm.shape sym ∨ P = avxOf Gen.Asm.shape sym)
    (p : UInt8 → Bool) (mem : Mem) (base len : Nat) (hlen : P.width ≤ len) :
    (cntLoop P p mem base len (len + 1) 0 0).1 = specCount p mem base len ∧
    ∀ ld ∈ (cntLoop P p mem base len (len + 1) 0 0).2, base ≤ ld.1 ∧ ld.1 + ld.2 ≤ base + len := by
  have hg := extracted_geometry.2 sym hs
  exact count_loops P (by rcases hP with h | h; exact Or.inl (h.trans hg.1); exact Or.inr (h.trans hg.2.1)) p mem base len hlen

/-! #### instruction level: the five kernel bodies as they stand in the working tree

`Gen.Asm.body_*` are the five bodies (`indexbytebody`, `indexbytebodyCase`, `indexByteBodyNonASCII`, `countbody`,
`countbodyCase`) **regenerated instruction by instruction** by `tools/asmfacts.py`: every label in source order, every
mnemonic with its registers, displacements, immediates and branch targets (an instruction outside the modelled subset
would appear as `STUCK`; there is none).  `Asm.run` (`SC/Model/Asm.lean`) interprets that subset of amd64 — general
registers, XMM and YMM lanes, ZF/CF/signed-less, fall-through between labels — recording every 16- and 32-byte load.

`whole_bodies`: from **any** machine state with `SI` = data, `BX` = length, the needle byte in `AL`, running a body from its
first instruction (lane broadcast `MOVD/PUNPCKLBW/PUNPCKLBW/PSHUFL`, `ORL $32` for letters, dispatch on the length, the
`len < 16` path with its page test, the SSE loop with its overlapping / masked last block, or — CPU feature flag set and
length beyond 32 / 64 — the AVX2 loop with `VPTEST` / `VPMOVMSKB` and its overlapping last block or `POPCNTQ`-masked 64-byte
tail) stores the scalar definition's answer through `R8`, and every byte it loads lies in a page that holds a byte of the
argument — for every memory, base address, needle byte, **every length and either value of the CPU feature flag**.  The loop
parts are proved by invariants over machine states (`Proofs/AsmLoop.lean`, `AsmCountLoop.lean`, `AsmAvx.lean`,
`AsmAvxCount.lean`).  Modelling assumptions: `Y_k` is a register file separate from `X_k` (see `Asm.YReg`); `VZEROUPPER` is
a no-op of the model.  Not modelled: the ABI wrappers that load `SI/BX/AL/R8` and jump to a body. -/

theorem whole_bodies (mem : Mem) (base len : Nat) (c : UInt8) (s : Asm.St) (f : Nat)
    (hb : base + len + 128 < 2 ^ 62)
    (hSI : s.r .SI = base) (hBX : s.r .BX = len) (hAL : s.r .AX % 256 = c.toNat)
    (hmem : s.mem = mem) (hout : s.out = none) (hl : s.loads = [])
    (hf : 15 * (len + 1) + 80 ≤ f) :
    -- case-sensitive byte search
    ((Asm.run Gen.Asm.body_indexbytebody f (Asm.block Gen.Asm.body_indexbytebody "entry") s).out =
        some (specIndex (fun b => b == c) mem base len) ∧
      Asm.Safe base len (Asm.run Gen.Asm.body_indexbytebody f (Asm.block Gen.Asm.body_indexbytebody "entry") s).loads) ∧
    -- letter needle: both sides OR-ed with 0x20
    ((Asm.run Gen.Asm.body_indexbytebodyCase f (Asm.block Gen.Asm.body_indexbytebodyCase "entry") s).out =
        some (specIndex (fun b => (b ||| 0x20) == (c ||| 0x20)) mem base len) ∧
      Asm.Safe base len (Asm.run Gen.Asm.body_indexbytebodyCase f (Asm.block Gen.Asm.body_indexbytebodyCase "entry") s).loads) ∧
    -- first byte ≥ 0x80
    ((Asm.run Gen.Asm.body_indexByteBodyNonASCII f (Asm.block Gen.Asm.body_indexByteBodyNonASCII "entry") s).out =
        some (specIndex (fun b => decide (b ≥ 0x80)) mem base len) ∧
      Asm.Safe base len (Asm.run Gen.Asm.body_indexByteBodyNonASCII f (Asm.block Gen.Asm.body_indexByteBodyNonASCII "entry") s).loads) ∧
    -- byte counts
    ((Asm.run Gen.Asm.body_countbody f (Asm.block Gen.Asm.body_countbody "entry") s).out =
        some ((specCount (fun b => b == c) mem base len : Nat) : Int) ∧
      Asm.Safe base len (Asm.run Gen.Asm.body_countbody f (Asm.block Gen.Asm.body_countbody "entry") s).loads) ∧
    ((Asm.run Gen.Asm.body_countbodyCase f (Asm.block Gen.Asm.body_countbodyCase "entry") s).out =
        some ((specCount (fun b => (b ||| 0x20) == (c ||| 0x20)) mem base len : Nat) : Int) ∧
      Asm.Safe base len (Asm.run Gen.Asm.body_countbodyCase f (Asm.block Gen.Asm.body_countbodyCase "entry") s).loads) :=
  ⟨Asm.full_indexbytebody mem base len c s f (by omega) hSI hBX hAL hmem hout hl (by omega),
   Asm.full_indexbytebodyCase mem base len c s f (by omega) hSI hBX hAL hmem hout hl (by omega),
   Asm.full_indexByteBodyNonASCII mem base len c s f (by omega) hSI hBX hmem hout hl (by omega),
   Asm.full_countbody mem base len c s f hb hSI hBX hAL hmem hout hl (by omega),
   Asm.full_countbodyCase mem base len c s f hb hSI hBX hAL hmem hout hl (by omega)⟩

/-- the hypotheses of `whole_bodies` are satisfiable with the AVX2 flag set and a length on the AVX2 path -/
example : ∃ s : Asm.St, s.avx2 = true ∧ s.r .SI = 4096 ∧ s.r .BX = 200 ∧ s.r .AX % 256 = (0x41 : UInt8).toNat ∧
    s.out = none ∧ s.loads = [] :=
  ⟨{ r := fun q => match q with | .SI => 4096 | .BX => 200 | .AX => 0x41 | _ => 0, x := fun _ _ => 0, y := fun _ _ => 0,
     zf := false, cf := false, lt := false, avx2 := true, popcnt := true, args := fun _ => 0, tail := none, mem := fun _ => 0, loads := [], out := none }, rfl, rfl, rfl, rfl, rfl, rfl⟩

/-- **The six assembly entry points, from the Go caller's argument frame to the stored result.**  `Gen.Asm.wrap_*` are the
ABI wrappers (`TEXT ·IndexByte` …) regenerated from the `.s` files; `Asm.call` runs a wrapper and then the kernel body it
tail-calls.  With the slice/string base and length and the needle byte in the frame (the upper bits of `AX`, every other
register, flag and vector lane arbitrary), the call stores

* `IndexByte` / `IndexByteString`: the least `i < len` with `S.byteEqFold c (mem (base+i))`, else −1 — the wrapper's
  letter test (`LEAL -65(AX), CX; CMPB CL, $25; JLS; ADDL $-97, AX; CMPB AL, $25; JHI`) selects the `ORL/POR $0x20` body
  exactly for ASCII letters;
* `Count` / `CountString` (POPCNT present): the number of such `i`; without POPCNT the wrapper leaves to the Go fallback
  `countGeneric[String]` before touching a register;
* `IndexByteNonASCII` / `IndexNonASCII`: the least `i` with `mem (base+i) ≥ 0x80`, else −1;

for every memory, base address, length, needle byte and either value of the AVX2 flag, and every byte loaded lies in a page
holding a byte of the argument. -/
theorem kernel_entries (mem : Mem) (base len : Nat) (c : UInt8) (s : Asm.St) (f : Nat)
    (hb : base + len + 128 < 2 ^ 62) (hc : s.args "c" % 256 = c.toNat)
    (hmem : s.mem = mem) (hout : s.out = none) (hl : s.loads = []) (hf : 15 * (len + 1) + 80 ≤ f) :
    (s.args "b_base" = base → s.args "b_len" = len →
      ((Asm.call Gen.Asm.wrap_IndexByte f s).out = some (specIndex (S.byteEqFold c) mem base len) ∧
        Asm.Safe base len (Asm.call Gen.Asm.wrap_IndexByte f s).loads) ∧
      (s.popcnt = true →
        (Asm.call Gen.Asm.wrap_Count f s).out = some ((specCount (S.byteEqFold c) mem base len : Nat) : Int) ∧
        Asm.Safe base len (Asm.call Gen.Asm.wrap_Count f s).loads) ∧
      ((Asm.call Gen.Asm.wrap_IndexByteNonASCII f s).out = some (specIndex (fun b => decide (b ≥ 0x80)) mem base len) ∧
        Asm.Safe base len (Asm.call Gen.Asm.wrap_IndexByteNonASCII f s).loads)) ∧
    (s.args "s_base" = base → s.args "s_len" = len →
      ((Asm.call Gen.Asm.wrap_IndexByteString f s).out = some (specIndex (S.byteEqFold c) mem base len) ∧
        Asm.Safe base len (Asm.call Gen.Asm.wrap_IndexByteString f s).loads) ∧
      (s.popcnt = true →
        (Asm.call Gen.Asm.wrap_CountString f s).out = some ((specCount (S.byteEqFold c) mem base len : Nat) : Int) ∧
        Asm.Safe base len (Asm.call Gen.Asm.wrap_CountString f s).loads) ∧
      ((Asm.call Gen.Asm.wrap_IndexNonASCII f s).out = some (specIndex (fun b => decide (b ≥ 0x80)) mem base len) ∧
        Asm.Safe base len (Asm.call Gen.Asm.wrap_IndexNonASCII f s).loads)) ∧
    (s.popcnt = false →
      (Asm.run Gen.Asm.wrap_Count f (Asm.block Gen.Asm.wrap_Count "entry") s).tail = some "countGeneric" ∧
      (Asm.run Gen.Asm.wrap_CountString f (Asm.block Gen.Asm.wrap_CountString "entry") s).tail = some "countGenericString") := by
  have hB : base < 2 ^ 64 := by omega
  have hL : len < 2 ^ 64 := by omega
  have hf16 : 16 ≤ f := by omega
  refine ⟨fun h1 h2 => ⟨?_, fun hp => ?_, ?_⟩, fun h1 h2 => ⟨?_, fun hp => ?_, ?_⟩, fun hp => ?_⟩
  · exact Asm.entry_index _ mem base len c s f (Asm.wrap_IndexByte_dispatch s c base len f h1 h2 hc hB hL hf16) hb hmem hout hl hf
  · exact Asm.entry_count _ mem base len c s f (Asm.wrap_Count_dispatch s c base len f h1 h2 hc hB hL hp hf16) hb hmem hout hl hf
  · exact Asm.entry_nonascii _ mem base len s f ((Asm.wrap_NonASCII_dispatch s base len f hB hL (by omega)).1 h1 h2) hb hmem hout hl hf
  · exact Asm.entry_index _ mem base len c s f (Asm.wrap_IndexByteString_dispatch s c base len f h1 h2 hc hB hL hf16) hb hmem hout hl hf
  · exact Asm.entry_count _ mem base len c s f (Asm.wrap_CountString_dispatch s c base len f h1 h2 hc hB hL hp hf16) hb hmem hout hl hf
  · exact Asm.entry_nonascii _ mem base len s f ((Asm.wrap_NonASCII_dispatch s base len f hB hL (by omega)).2 h1 h2) hb hmem hout hl hf
  · exact Asm.wrap_Count_nopopcnt s f hp (by omega)

/-- the letter kernels compute the library's fold-equality of bytes: for an ASCII letter `c`, `(b ||| 0x20) == (c ||| 0x20)` is
    `S.byteEqFold c b` -/
theorem letter_predicate : ∀ c : UInt8, S.isAlpha c = true → ∀ b : UInt8, ((b ||| 0x20) == (c ||| 0x20)) = S.byteEqFold c b := by
  decide +kernel

/-- the `len < 16` counting path: scalar definition, and no load can fault next to an unmapped page -/
theorem count_small (p : UInt8 → Bool) (mem : Mem) (base len : Nat) (hlen : len < 16) :
    (cntSmall p mem base len).1 = specCount p mem base len ∧
    (0 < len → ∀ ld ∈ (cntSmall p mem base len).2, ∀ a, ld.1 ≤ a → a < ld.1 + ld.2 →
      ∃ b, base ≤ b ∧ b < base + len ∧ a / 4096 = b / 4096) :=
  ⟨cntSmall_correct p mem base len hlen, cntSmall_loads_safe p mem base len hlen⟩

/-- the mask arithmetic the kernels use to select lanes (all shift counts) -/
theorem lane_masks :
    (∀ c : Fin 17, ∀ j : Fin 16, ((0xFFFF >>> c.val) <<< c.val).testBit j.val = decide (c.val ≤ j.val)) ∧
    (∀ n : Fin 16, ∀ j : Fin 16, ((1 <<< n.val) - 1).testBit j.val = decide (j.val < n.val)) ∧
    (∀ c : Fin 65, ∀ j : Fin 64, ((0xFFFFFFFFFFFFFFFF <<< c.val) % 2 ^ 64).testBit j.val = decide (c.val ≤ j.val)) :=
  ⟨highMask16, lowMask16, highMask64⟩
end C13

namespace C13
/-- concrete runs of the interpreter through the AVX2 paths (flag set): a 70-byte search matching in the overlapping last
    block, and a 130-byte count using the masked 64-byte tail -/
example : (Asm.run Gen.Asm.body_indexbytebody 200 (Asm.block Gen.Asm.body_indexbytebody "entry")
    { r := fun q => match q with | .SI => 4096 | .BX => 70 | .AX => 0x41 | _ => 0, x := fun _ _ => 0, y := fun _ _ => 0,
      zf := false, cf := false, lt := false, avx2 := true, popcnt := true, args := fun _ => 0, tail := none, mem := fun i => if i = 4096 + 66 then 0x41 else 0, loads := [], out := none }).out
    = some 66 := by decide +kernel
example : (Asm.run Gen.Asm.body_countbodyCase 400 (Asm.block Gen.Asm.body_countbodyCase "entry")
    { r := fun q => match q with | .SI => 4096 | .BX => 130 | .AX => 0x41 | _ => 0, x := fun _ _ => 0, y := fun _ _ => 0,
      zf := false, cf := false, lt := false, avx2 := true, popcnt := true, args := fun _ => 0, tail := none,
      mem := fun i => if i = 4096 + 3 ∨ i = 4096 + 64 ∨ i = 4096 + 129 then 0x61 else if i = 4096 + 130 then 0x41 else 0, loads := [], out := none }).out
    = some 3 := by decide +kernel
end C13

namespace C13
/-- a concrete call through an ABI wrapper: needle `k` (junk above the low byte), data with `K` at offset 35 → the wrapper
    takes the letter body, AVX2 path, result 35 -/
example : (Asm.call Gen.Asm.wrap_IndexByte 800
    { r := fun _ => 0xDEAD, x := fun _ _ => 0xEE, y := fun _ _ => 0xEE, zf := true, cf := true, lt := true, avx2 := true, popcnt := true,
      args := fun n => if n == "b_base" then 8192 else if n == "b_len" then 40 else if n == "c" then 0xAB00 + 0x6B else 0,
      tail := none, mem := fun i => if i = 8192 + 35 then 0x4B else 0x2E, loads := [], out := none }).out = some 35 := by decide +kernel
end C13

namespace C13
/-- the copies of the three assembly files that toolchains before go1.22 build (`//go:build amd64 && !go1.22`: `indexbyte_amd64.s`,
    `count_amd64.s`, `index_non_ascii_amd64.s`) translate to **the same programs**, body by body and wrapper by wrapper, as the
    go1.22 files — so `whole_bodies` and `kernel_entries` are theorems about them as well -/
theorem pre122_same : Gen.Asm.pre122_pairs.map Prod.fst = Gen.Asm.pre122_pairs.map Prod.snd := rfl

example : Gen.Asm.pre122_pairs.length = 11 := rfl
end C13
