import SC.Proofs.KernSmall
import SC.Proofs.KernBlocks
import SC.Model.AsmShape
import SC.Gen.AsmFacts
/-!
# C13 — SIMD byte kernels equal their scalar definition at every length and alignment

`Kern.small` / `Kern.sseLoop` model the `len < 16` path (with its page test) and the 16-byte block
loop with the overlapping last block of `indexbytebody`, as functions of an arbitrary memory
`mem : Nat → UInt8`, base address and length, returning the result and the list of loads.
-/
namespace C13
open Kern

/-- the block loop returns the scalar definition for every memory, base and length ≥ 16 -/
theorem sse_loop_is_scalar (p : UInt8 → Bool) (mem : Mem) (base len : Nat) (hlen : 16 ≤ len) :
    sseLoop p mem base (len - 16) (len / 16 + 1) 0 = specIndex p mem base len :=
  sseLoop_correct p mem base len hlen (len / 16 + 1) 0 (by omega) (by omega) (fun i hi => by omega)

/-- the small path returns the scalar definition for every memory, base (alignment) and length < 16 -/
theorem small_is_scalar (p : UInt8 → Bool) (mem : Mem) (base len : Nat) (hlen : len < 16) :
    (small p mem base len).1 = specIndex p mem base len := small_correct p mem base len hlen

/-- every byte the small path loads lies in a 4096-byte page that contains a byte of the argument:
    no load can fault even when the argument abuts an unmapped page -/
theorem small_never_faults (p : UInt8 → Bool) (mem : Mem) (base len : Nat) (hlen : len < 16) (h0 : 0 < len) :
    ∀ ld ∈ (small p mem base len).2, ∀ a, ld.1 ≤ a → a < ld.1 + ld.2 →
      ∃ b, base ≤ b ∧ b < base + len ∧ a / 4096 = b / 4096 := small_loads_safe p mem base len hlen h0

/-- **tie to the source**: the instruction shape (mnemonics and integer operands per TEXT symbol and label) of the
    three amd64 kernels in the working tree is the one the block model was written against -/
theorem asm_shape : Gen.Asm.shape = Kern.expectedShape := eq_of_beq (by decide +kernel)

/-- block geometries read off the shape -/
def sse16 : LoopP := ⟨16, 16, 16⟩
def avx32 : LoopP := ⟨32, 32, 32⟩
def avx64 : LoopP := ⟨64, 64, 64⟩

/-- every search loop (SSE 16-byte and AVX2 32-byte blocks, of `indexbytebody`, `indexbytebodyCase` and
    `indexByteBodyNonASCII`) returns the scalar definition and loads only bytes of the argument -/
theorem search_loops (P : LoopP) (hP : P = sse16 ∨ P = avx32) (p : UInt8 → Bool) (mem : Mem) (base len : Nat)
    (hlen : P.width ≤ len) :
    (idxLoop P p mem base len (len + 1) 0).1 = specIndex p mem base len ∧
    ∀ ld ∈ (idxLoop P p mem base len (len + 1) 0).2, base ≤ ld.1 ∧ ld.1 + ld.2 ≤ base + len := by
  have hok : P.ok := by rcases hP with h | h <;> subst h <;> exact ⟨rfl, rfl, by decide⟩
  have hw : 1 ≤ P.width := hok.2.2
  apply idxLoop_correct P hok p mem base len hlen (len + 1) 0 (by omega)
  · have : len + 1 ≤ (len + 1) * P.width := Nat.le_mul_of_pos_right _ hw
    omega
  · intro i hi; omega

/-- every counting loop (SSE 16-byte, AVX2 64-byte iterations, of `countbody` and `countbodyCase`, with the masked
    overlapping tail) returns the number of matching bytes and loads only bytes of the argument -/
theorem count_loops (P : LoopP) (hP : P = sse16 ∨ P = avx64) (p : UInt8 → Bool) (mem : Mem) (base len : Nat)
    (hlen : P.width ≤ len) :
    (cntLoop P p mem base len (len + 1) 0 0).1 = specCount p mem base len ∧
    ∀ ld ∈ (cntLoop P p mem base len (len + 1) 0 0).2, base ≤ ld.1 ∧ ld.1 + ld.2 ≤ base + len := by
  have hok : P.ok := by rcases hP with h | h <;> subst h <;> exact ⟨rfl, rfl, by decide⟩
  have hw : 1 ≤ P.width := hok.2.2
  have h := cntLoop_correct P hok p mem base len hlen (len + 1) 0 0 (by omega)
    (by have : len + 1 ≤ (len + 1) * P.width := Nat.le_mul_of_pos_right _ hw
        simp only [Nat.add_zero]; omega) (by simp [cntBlk])
  simpa using h

/-- the `len < 16` counting path: scalar definition, and no load can fault next to an unmapped page -/
theorem count_small (p : UInt8 → Bool) (mem : Mem) (base len : Nat) (hlen : len < 16) :
    (cntSmall p mem base len).1 = specCount p mem base len ∧
    (0 < len → ∀ ld ∈ (cntSmall p mem base len).2, ∀ a, ld.1 ≤ a → a < ld.1 + ld.2 →
      ∃ b, base ≤ b ∧ b < base + len ∧ a / 4096 = b / 4096) :=
  ⟨cntSmall_correct p mem base len hlen, cntSmall_loads_safe p mem base len hlen⟩

/-- the mask arithmetic the kernels use to select lanes (all shift counts) -/
theorem lane_masks :
    (∀ c : Fin 17, ∀ j : Fin 16, ((0xFFFF >>> c.val) <<< c.val).testBit j.val = decide (c.val ≤ j.val)) ∧
    (∀ n : Fin 16, ∀ j : Fin 16, ((1 <<< n.val) - 1).testBit j.val = decide (j.val < n.val)) ∧
    (∀ c : Fin 65, ∀ j : Fin 64, ((0xFFFFFFFFFFFFFFFF <<< c.val) % 2 ^ 64).testBit j.val = decide (c.val ≤ j.val)) :=
  ⟨highMask16, lowMask16, highMask64⟩
end C13
