import SC.Proofs.KernSmall
/-!
# C13 — SIMD byte kernels equal their scalar definition at every length and alignment

`Kern.small` / `Kern.sseLoop` model the `len < 16` path (with its page test) and the 16-byte block
loop with the overlapping last block of `indexbytebody`, as functions of an arbitrary memory
`mem : Nat → UInt8`, base address and length, returning the result and the list of loads.
-/
namespace C13
open Kern

/-- the block loop returns the scalar definition for every memory, base and length ≥ 16 -/
theorem sse_loop_is_scalar (p : UInt8 → Bool) (mem : Mem) (base len : Nat) (hlen : 16 ≤ len) :
    sseLoop p mem base (len - 16) (len / 16 + 1) 0 = specIndex p mem base len :=
  sseLoop_correct p mem base len hlen (len / 16 + 1) 0 (by omega) (by omega) (fun i hi => by omega)

/-- the small path returns the scalar definition for every memory, base (alignment) and length < 16 -/
theorem small_is_scalar (p : UInt8 → Bool) (mem : Mem) (base len : Nat) (hlen : len < 16) :
    (small p mem base len).1 = specIndex p mem base len := small_correct p mem base len hlen

/-- every byte the small path loads lies in a 4096-byte page that contains a byte of the argument:
    no load can fault even when the argument abuts an unmapped page -/
theorem small_never_faults (p : UInt8 → Bool) (mem : Mem) (base len : Nat) (hlen : len < 16) (h0 : 0 < len) :
    ∀ ld ∈ (small p mem base len).2, ∀ a, ld.1 ≤ a → a < ld.1 + ld.2 →
      ∃ b, base ≤ b ∧ b < base + len ∧ a / 4096 = b / 4096 := small_loads_safe p mem base len hlen h0
end C13
