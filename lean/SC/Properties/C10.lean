import SC.Proofs.SpecIndex
import SC.Proofs.IdxRune2
/-!
# C10 — single-character searches find the first/last member of the character's orbit
-/
namespace C10
open Utf8 Spec

/-- IndexRune: −1 for an invalid rune value -/
theorem indexRune_invalid (s : Bytes) (r : Int) (h : S.validRuneI r = false) : S.indexRune s r = -1 := by
  simp [S.indexRune, h]

/-- IndexRune: for a valid `r`, the offset of the first code point of `s` fold-equal to `r` -/
theorem indexRune_first (s : Bytes) (r : Int) (h : S.validRuneI r = true) :
    (S.indexRune s r = -1 ∧ ∀ x ∈ S.fruns s, x ≠ S.fold r.toNat) ∨
    (∃ k, k < (dec s).length ∧ S.indexRune s r = offAt s k ∧ (S.fruns s)[k]? = some (S.fold r.toNat) ∧
        ∀ j < k, (S.fruns s)[j]? ≠ some (S.fold r.toNat)) := by
  unfold S.indexRune
  rw [if_pos h]
  cases hf : (S.fruns s).findIdx? (· == S.fold r.toNat) with
  | none =>
    left; refine ⟨rfl, ?_⟩
    intro x hx
    have := List.findIdx?_eq_none_iff.mp hf x hx
    simpa using this
  | some k =>
    right
    have := List.findIdx?_eq_some_iff_getElem.mp hf
    obtain ⟨hk, hp, hmin⟩ := this
    refine ⟨k, by simpa [S.fruns, fdec] using hk, rfl, ?_, ?_⟩
    · rw [List.getElem?_eq_getElem hk]; simpa using hp
    · intro j hj
      have hjl : j < (S.fruns s).length := by omega
      rw [List.getElem?_eq_getElem hjl]
      have := hmin j hj
      simpa using this

/-- the bridge used by every rune search: an exact byte search for `encode r` returns the first
    boundary whose code point is `r` (arbitrary haystack bytes) -/
theorem byte_search_is_rune_search (s : Bytes) (r : Nat) (hv : validRune r) :
    IsFirstRune s r (A.bytesIndex s (encode r)) := bytesIndex_isFirstRune s r hv

example : S.indexRune [0x78, 0xE2, 0x84, 0xAA] 0x6B = 1 ∧ S.indexRune [0x78, 0xFF] 0xFFFD = 1 ∧
    S.indexByte [0x78, 0xC5, 0xBF] 0x53 = 1 ∧ S.lastIndexByte [0x6B, 0xE2, 0x84, 0xAA, 0x78] 0x4B = 1 ∧
    S.indexByteASCII [0x78, 0xC5, 0xBF, 0x73] 0x53 = 3 := by decide +kernel
end C10
