import SC.Proofs.SpecIndex
import SC.Proofs.IdxRune2
import SC.Proofs.SpecFirstBy
import SC.Proofs.RLastIndexByte
import SC.Proofs.RByteLevel
/-!
# C10 — single-character searches find the first/last member of the character's orbit
-/
namespace C10
open Utf8 Spec

/-- IndexRune: −1 for an invalid rune value -/
theorem indexRune_invalid (s : Bytes) (r : Int) (h : S.validRuneI r = false) : S.indexRune s r = -1 := by
  simp [S.indexRune, h]

/-- IndexRune: for a valid `r`, the offset of the first code point of `s` fold-equal to `r` -/
theorem indexRune_first (s : Bytes) (r : Int) (h : S.validRuneI r = true) :
    (S.indexRune s r = -1 ∧ ∀ x ∈ S.fruns s, x ≠ S.fold r.toNat) ∨
    (∃ k, k < (dec s).length ∧ S.indexRune s r = offAt s k ∧ (S.fruns s)[k]? = some (S.fold r.toNat) ∧
        ∀ j < k, (S.fruns s)[j]? ≠ some (S.fold r.toNat)) := by
  unfold S.indexRune
  rw [if_pos h]
  cases hf : (S.fruns s).findIdx? (· == S.fold r.toNat) with
  | none =>
    left; refine ⟨rfl, ?_⟩
    intro x hx
    have := List.findIdx?_eq_none_iff.mp hf x hx
    simpa using this
  | some k =>
    right
    have := List.findIdx?_eq_some_iff_getElem.mp hf
    obtain ⟨hk, hp, hmin⟩ := this
    refine ⟨k, by simpa [S.fruns, fdec] using hk, rfl, ?_, ?_⟩
    · rw [List.getElem?_eq_getElem hk]; simpa using hp
    · intro j hj
      have hjl : j < (S.fruns s).length := by omega
      rw [List.getElem?_eq_getElem hjl]
      have := hmin j hj
      simpa using this

/-- the bridge used by every rune search: an exact byte search for `encode r` returns the first
    boundary whose code point is `r` (arbitrary haystack bytes) -/
theorem byte_search_is_rune_search (s : Bytes) (r : Nat) (hv : validRune r) :
    IsFirstRune s r (A.bytesIndex s (encode r)) := bytesIndex_isFirstRune s r hv

/-! ### Refinement: the transliterated algorithms

`indexRuneCase` (all four branches: ASCII, U+FFFD, invalid, and the 2/3/4-byte last-byte search with its
`fails`/`Cutover` hand-over to `IndexString` resp. the portable tail loop), `indexByte` (byte kernel +
K/k→U+212A, S/s→U+017F), `indexRune2`, `indexRune` (FoldMap loop over up to four orbit members,
ToUpperLower pair, single rune) — for every haystack, every `int32` rune, both `NativeIndex` settings. -/

/-- `indexRuneCase` finds the first boundary holding the (case-sensitive) rune -/
theorem indexRuneCase_first (cfg : A.Cfg) (s : Bytes) (r : Nat) (hv : validRune r) (hr : r ≠ 0xFFFD) :
    IsFirstRune s r (A.indexRuneCase cfg s (r : Int)) := A.indexRuneCase_isFirstRune cfg s r hv hr

/-- `indexRune` returns the first member of the orbit *and the width of the code point found* (the skip
    loop of `Index` advances by it) -/
theorem indexRune_first_with_width (cfg : A.Cfg) (s : Bytes) (u : Nat) (hv : validRune u) (hu : u ≠ 0xFFFD) :
    A.IsFirstBy (fun x => Fold.caseFold x == Fold.caseFold u) s (A.indexRune cfg s (u : Int)) :=
  A.indexRune_firstBy cfg s u hv hu

/-- `indexByte` on an ASCII byte: first member of its orbit (other case, U+212A for K/k, U+017F for S/s) -/
theorem indexByte_first (cfg : A.Cfg) (s : Bytes) (c : UInt8) (hc : c < 0x80) :
    A.IsFirstBy (fun x => Fold.caseFold x == Fold.caseFold c.toNat) s (A.indexByte cfg s c) :=
  A.indexByte_firstBy cfg s c hc

/-- `IndexRune` / `ContainsRune` equal the specification: every byte string, every `int32` -/
theorem indexRune_refines (cfg : A.Cfg) (s : Bytes) (r : Int) : A.IndexRune cfg s r = S.indexRune s r := A.IndexRune_eq cfg s r
theorem containsRune_refines (cfg : A.Cfg) (s : Bytes) (r : Int) : A.ContainsRune cfg s r = S.containsRune s r :=
  A.ContainsRune_eq cfg s r

/-- `LastIndexByte` on an ASCII byte: the last code point in its orbit (other case; U+212A for K/k, U+017F for S/s) -/
theorem lastIndexByte_last (cfg : A.Cfg) (s : Bytes) (c : UInt8) (hc : c < 0x80) :
    A.IsLastBy (fun x => Fold.caseFold x == Fold.caseFold c.toNat) s (A.LastIndexByte cfg s c) :=
  A.LastIndexByte_isLastBy cfg s c hc

/-- `lastIndexRune`: the last code point in the orbit of a valid non-ASCII rune (or U+FFFD) -/
theorem lastIndexRune_last (cfg : A.Cfg) (s : Bytes) (u : Nat) (hv : validRune u) (h80 : 0x80 ≤ u) :
    A.IsLastBy (fun x => Fold.caseFold x == Fold.caseFold u) s (A.lastIndexRune cfg s (u : Int)) :=
  A.lastIndexRune_isLastBy cfg s u hv h80

/-- the byte-level specification, stated as in the property: `S.indexByte s c` is the least offset at which byte `c`
    occurs, or (for an ASCII letter) its other case, or (for K k S s) the encoded U+212A resp. U+017F starts; −1 if none -/
theorem indexByte_least (s : Bytes) (c : UInt8) :
    (S.indexByte s c = -1 ∧ ∀ i, i < s.length → S.byteMatch true c (s.drop i) = false) ∨
    (∃ n : Nat, S.indexByte s c = (n : Int) ∧ n < s.length ∧ S.byteMatch true c (s.drop n) = true ∧
        ∀ i, i < n → S.byteMatch true c (s.drop i) = false) := by
  rcases A.firstAt_spec (S.byteMatch true c) s 0 with h | ⟨n, h1, h2⟩
  · exact Or.inl h
  · exact Or.inr ⟨n, by rw [S.indexByte, h1, Nat.zero_add], h2⟩
theorem lastIndexByte_greatest (s : Bytes) (c : UInt8) :
    (S.lastIndexByte s c = -1 ∧ ∀ i, i < s.length → S.byteMatch true c (s.drop i) = false) ∨
    (∃ n : Nat, S.lastIndexByte s c = (n : Int) ∧ n < s.length ∧ S.byteMatch true c (s.drop n) = true ∧
        ∀ i, n < i → i < s.length → S.byteMatch true c (s.drop i) = false) := by
  rcases A.lastAt_spec_gen (S.byteMatch true c) s 0 with h | ⟨n, h1, h2⟩
  · exact Or.inl h
  · exact Or.inr ⟨n, by rw [S.lastIndexByte, h1, Nat.zero_add], h2⟩

/-- the match predicate of the property statement, spelled out -/
theorem byteMatch_meaning (c b : UInt8) (rest : Bytes) :
    S.byteMatch true c (b :: rest) = true ↔
      b = c ∨ (S.isAlpha c = true ∧ (b ||| 0x20) = (c ||| 0x20)) ∨
      ((c = 0x4B ∨ c = 0x6B) ∧ [0xE2, 0x84, 0xAA] <+: b :: rest) ∨ ((c = 0x53 ∨ c = 0x73) ∧ [0xC5, 0xBF] <+: b :: rest) := by
  unfold S.byteMatch S.byteEqFold S.relative S.headIs
  by_cases hk : c = 0x4B ∨ c = 0x6B
  · have : (c == 0x4B || c == 0x6B) = true := by rcases hk with h | h <;> subst h <;> rfl
    have hs : ¬ (c = 0x53 ∨ c = 0x73) := by rcases hk with h | h <;> subst h <;> decide
    simp only [this, if_true, hk, hs, true_and, false_and, or_false]
    simp [List.isPrefixOf_iff_prefix, or_assoc]
  · have hk' : (c == 0x4B || c == 0x6B) = false := by
      cases h : (c == 0x4B || c == 0x6B) with
      | false => rfl
      | true => simp at h; exact absurd h hk
    by_cases hs : c = 0x53 ∨ c = 0x73
    · have : (c == 0x53 || c == 0x73) = true := by rcases hs with h | h <;> subst h <;> rfl
      simp only [hk', this, if_true, hk, hs, true_and, false_and, false_or]
      simp [List.isPrefixOf_iff_prefix, or_assoc]
    · have hs' : (c == 0x53 || c == 0x73) = false := by
        cases h : (c == 0x53 || c == 0x73) with
        | false => rfl
        | true => simp at h; exact absurd h hs
      simp [hk', hs', hk, hs]

/-- refinement: `IndexByte`, `LastIndexByte`, `IndexByteASCII` equal the byte-level specification for all 256 byte
    values (ASCII letters, K/k/S/s with their non-ASCII relatives, other ASCII, bytes ≥ 0x80), every byte string -/
theorem indexByte_refines (cfg : A.Cfg) (s : Bytes) (c : UInt8) : A.IndexByte cfg s c = S.indexByte s c := A.IndexByte_eq cfg s c
theorem lastIndexByte_refines (cfg : A.Cfg) (s : Bytes) (c : UInt8) : A.LastIndexByte cfg s c = S.lastIndexByte s c :=
  A.LastIndexByte_eq cfg s c
theorem indexByteASCII_refines (cfg : A.Cfg) (s : Bytes) (c : UInt8) : A.IndexByteASCII cfg s c = S.indexByteASCII s c :=
  A.IndexByteASCII_eq cfg s c

/-- the byte-level and the orbit-level readings agree: for an ASCII byte, `IndexByte` is the first code point of `s`
    in the byte's simple-folding orbit -/
theorem indexByte_is_orbit_search (cfg : A.Cfg) (s : Bytes) (c : UInt8) (hc : c < 0x80) :
    ∃ w, A.IsFirstBy (fun x => Fold.caseFold x == Fold.caseFold c.toNat) s (S.indexByte s c, w) := by
  obtain ⟨w, h⟩ := A.IndexByte_firstBy cfg s c hc
  rw [A.IndexByte_eq] at h
  exact ⟨w, h⟩

example : S.indexRune [0x78, 0xE2, 0x84, 0xAA] 0x6B = 1 ∧ S.indexRune [0x78, 0xFF] 0xFFFD = 1 ∧
    S.indexByte [0x78, 0xC5, 0xBF] 0x53 = 1 ∧ S.lastIndexByte [0x6B, 0xE2, 0x84, 0xAA, 0x78] 0x4B = 1 ∧
    S.indexByteASCII [0x78, 0xC5, 0xBF, 0x73] 0x53 = 3 := by decide +kernel
end C10
