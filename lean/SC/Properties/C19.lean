import SC.Proofs.Valid
import SC.Properties.C09
import SC.Proofs.EmbedBytes
import SC.Proofs.RLastIndex
import SC.Proofs.RCountByte
/-!
# C19 — a match survives embedding the haystack in a larger text
-/
namespace C19
open Utf8 Spec

theorem fruns_append (x y : Bytes) (hx : Valid x) : S.fruns (x ++ y) = S.fruns x ++ S.fruns y :=
  fdec_append_valid S.fold x y hx

/-- Index(s,t) = i ≥ 0 ⇒ Index(s+y, t) = i -/
theorem index_append_right (s y t : Bytes) (hs : Valid s) (i : Nat) (h : S.index s t = (i : Int)) :
    S.index (s ++ y) t = (i : Int) := by
  unfold S.index S.indexK at h ⊢
  cases hk : findSub (S.fruns s) (S.fruns t) with
  | none => rw [hk] at h; simp at h
  | some k =>
    rw [hk] at h
    have hk2 := findSub_append_right (S.fruns s) (S.fruns y) (S.fruns t) k hk
    rw [fruns_append s y hs, hk2]
    have hkl := ((findSub_some_iff _ _ _).mp hk).2.1
    simp only [S.fruns, fdec_length] at hkl
    simp only at h ⊢
    rw [offAt_append_valid s y hs k hkl]; exact h

/-- Index(s,t) = i ≥ 0 ⇒ 0 ≤ Index(x+s, t) ≤ len(x)+i -/
theorem index_append_left (x s t : Bytes) (hx : Valid x) (i : Nat) (h : S.index s t = (i : Int)) :
    0 ≤ S.index (x ++ s) t ∧ S.index (x ++ s) t ≤ (x.length + i : Nat) := by
  unfold S.index S.indexK at h ⊢
  cases hk : findSub (S.fruns s) (S.fruns t) with
  | none => rw [hk] at h; simp at h
  | some k =>
    rw [hk] at h
    simp only [Int.natCast_inj] at h
    have hk1 := (findSub_some_iff _ _ _).mp hk
    have hkl := hk1.2.1
    simp only [S.fruns, fdec_length] at hkl
    -- a match exists in x ++ s at rune index |x| + k
    have hm : S.fruns t <+: (S.fruns (x ++ s)).drop ((dec x).length + k) := by
      rw [fruns_append x s hx]
      rw [show (dec x).length = (S.fruns x).length from (fdec_length _ _).symm]
      rw [List.drop_append]
      simp only [List.drop_eq_nil_of_le (Nat.le_add_right _ _), Nat.add_sub_cancel_left, List.nil_append]
      exact hk1.1
    cases hk' : findSub (S.fruns (x ++ s)) (S.fruns t) with
    | none =>
      exfalso
      exact (findSub_none_iff _ _).mp hk' ((dec x).length + k)
        (by rw [fruns_append x s hx]; simp [S.fruns, fdec_length]; omega) hm
    | some k' =>
      have hk2 := (findSub_some_iff _ _ _).mp hk'
      have hle : k' ≤ (dec x).length + k := by
        rcases Nat.lt_or_ge ((dec x).length + k) k' with hlt | hge
        · exact absurd hm (hk2.2.2 _ hlt)
        · exact hge
      have hlen : (dec x).length + k ≤ (dec (x ++ s)).length := by
        rw [dec_append_valid x.length x s (Nat.le_refl _) hx]; simp; omega
      have := offAt_le_of_le (x ++ s) k' _ hle hlen
      rw [offAt_append_valid_right x s hx k, h] at this
      simp only
      constructor
      · omega
      · exact_mod_cast this

/-- HasPrefix(s,t) ⇒ HasPrefix(s+y, t) -/
theorem hasPrefix_append (s y t : Bytes) (hs : Valid s) (h : S.hasPrefix s t = true) : S.hasPrefix (s ++ y) t = true := by
  rw [C09.hasPrefix_iff] at h ⊢
  rw [fruns_append s y hs]
  exact h.trans (List.prefix_append _ _)

/-- HasSuffix(s,t) ⇒ HasSuffix(x+s, t) -/
theorem hasSuffix_append (x s t : Bytes) (hx : Valid x) (h : S.hasSuffix s t = true) : S.hasSuffix (x ++ s) t = true := by
  rw [C09.hasSuffix_iff] at h ⊢
  rw [fruns_append x s hx]
  exact h.trans (List.suffix_append _ _)

/-- LastIndex(s,t) = i ≥ 0 ⇒ LastIndex(x+s, t) = len(x)+i -/
theorem lastIndex_append_left (x s t : Bytes) (hx : Valid x) (i : Nat) (h : S.lastIndex s t = (i : Int)) :
    S.lastIndex (x ++ s) t = ((x.length + i : Nat) : Int) := A.lastIndex_append_left x s t hx i h

/-- LastIndex(s,t) = i ≥ 0 ⇒ LastIndex(s+y, t) ≥ i -/
theorem lastIndex_append_right (s y t : Bytes) (hs : Valid s) (i : Nat) (h : S.lastIndex s t = (i : Int)) :
    (i : Int) ≤ S.lastIndex (s ++ y) t := A.lastIndex_append_right s y t hs i h

/-- Count(x+s+y, t) ≥ Count(s, t): the greedy non-overlapping count is monotone under embedding -/
theorem count_embed (x s y t : Bytes) (hx : Valid x) (hs : Valid s) : S.count s t ≤ S.count (x ++ s ++ y) t :=
  A.count_embed x s y t hx hs

/-- converse: if the first (last) match reported in x+s+y starts at or after `len x` and its matched text ends at or
    before `len x + len s` — lies wholly inside `s` — then it is the first (last) match reported for `s` alone -/
theorem index_of_embedded (x s y t : Bytes) (hx : Valid x) (hs : Valid s) (K : Nat)
    (h : S.indexK (x ++ s ++ y) t = some K)
    (hstart : x.length ≤ offAt (x ++ s ++ y) K)
    (hend : offAt (x ++ s ++ y) (K + S.nrunes t) ≤ x.length + s.length) :
    S.index (x ++ s ++ y) t = (offAt (x ++ s ++ y) K : Int) ∧
    S.index s t = ((offAt (x ++ s ++ y) K - x.length : Nat) : Int) :=
  ⟨by unfold S.index; rw [h], A.index_of_embedded x s y t hx hs K h hstart hend⟩
theorem lastIndex_of_embedded (x s y t : Bytes) (hx : Valid x) (hs : Valid s) (K : Nat)
    (h : S.lastIndexK (x ++ s ++ y) t = some K)
    (hstart : x.length ≤ offAt (x ++ s ++ y) K)
    (hend : offAt (x ++ s ++ y) (K + S.nrunes t) ≤ x.length + s.length) :
    S.lastIndex (x ++ s ++ y) t = (offAt (x ++ s ++ y) K : Int) ∧
    S.lastIndex s t = ((offAt (x ++ s ++ y) K - x.length : Nat) : Int) :=
  ⟨by unfold S.lastIndex; rw [h], A.lastIndex_of_embedded x s y t hx hs K h hstart hend⟩

/-- the same for the algorithm model (both packages, every backend setting), through the refinement theorems -/
theorem model_embedding (cfg : A.Cfg) (x s y t : Bytes) (hx : Valid x) (hs : Valid s) (i : Nat) :
    (A.Index cfg s t = (i : Int) → A.Index cfg (s ++ y) t = (i : Int) ∧
        0 ≤ A.Index cfg (x ++ s) t ∧ A.Index cfg (x ++ s) t ≤ (x.length + i : Nat)) ∧
    (A.LastIndex cfg s t = (i : Int) → A.LastIndex cfg (x ++ s) t = ((x.length + i : Nat) : Int) ∧
        (i : Int) ≤ A.LastIndex cfg (s ++ y) t) ∧
    (A.HasPrefix cfg s t = true → A.HasPrefix cfg (s ++ y) t = true) ∧
    (A.HasSuffix cfg s t = true → A.HasSuffix cfg (x ++ s) t = true) ∧
    A.Count cfg s t ≤ A.Count cfg (x ++ s ++ y) t := by
  simp only [A.Index_eq, A.LastIndex_eq, A.HasPrefix_eq, A.HasSuffix_eq, A.Count_eq]
  refine ⟨fun h => ⟨index_append_right s y t hs i h, index_append_left x s t hx i h⟩,
    fun h => ⟨lastIndex_append_left x s t hx i h, lastIndex_append_right s y t hs i h⟩,
    hasPrefix_append s y t hs, hasSuffix_append x s t hx, ?_⟩
  exact_mod_cast count_embed x s y t hx hs

example : Valid [0x78, 0xE4, 0xB8, 0x96] := by
  have : dec [0x78, 0xE4, 0xB8, 0x96] = [(0x78, 1), (0x4E16, 3)] := by decide +kernel
  intro p hp; rw [this] at hp; simp at hp; rcases hp with rfl | rfl <;> simp
end C19
