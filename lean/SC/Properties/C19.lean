import SC.Proofs.Valid
import SC.Properties.C09
/-!
# C19 — a match survives embedding the haystack in a larger text
-/
namespace C19
open Utf8 Spec

theorem fruns_append (x y : Bytes) (hx : Valid x) : S.fruns (x ++ y) = S.fruns x ++ S.fruns y :=
  fdec_append_valid S.fold x y hx

/-- Index(s,t) = i ≥ 0 ⇒ Index(s+y, t) = i -/
theorem index_append_right (s y t : Bytes) (hs : Valid s) (i : Nat) (h : S.index s t = (i : Int)) :
    S.index (s ++ y) t = (i : Int) := by
  unfold S.index S.indexK at h ⊢
  cases hk : findSub (S.fruns s) (S.fruns t) with
  | none => rw [hk] at h; simp at h
  | some k =>
    rw [hk] at h
    have hk2 := findSub_append_right (S.fruns s) (S.fruns y) (S.fruns t) k hk
    rw [fruns_append s y hs, hk2]
    have hkl := ((findSub_some_iff _ _ _).mp hk).2.1
    simp only [S.fruns, fdec_length] at hkl
    simp only at h ⊢
    rw [offAt_append_valid s y hs k hkl]; exact h

/-- Index(s,t) = i ≥ 0 ⇒ 0 ≤ Index(x+s, t) ≤ len(x)+i -/
theorem index_append_left (x s t : Bytes) (hx : Valid x) (i : Nat) (h : S.index s t = (i : Int)) :
    0 ≤ S.index (x ++ s) t ∧ S.index (x ++ s) t ≤ (x.length + i : Nat) := by
  unfold S.index S.indexK at h ⊢
  cases hk : findSub (S.fruns s) (S.fruns t) with
  | none => rw [hk] at h; simp at h
  | some k =>
    rw [hk] at h
    simp only [Int.natCast_inj] at h
    have hk1 := (findSub_some_iff _ _ _).mp hk
    have hkl := hk1.2.1
    simp only [S.fruns, fdec_length] at hkl
    -- a match exists in x ++ s at rune index |x| + k
    have hm : S.fruns t <+: (S.fruns (x ++ s)).drop ((dec x).length + k) := by
      rw [fruns_append x s hx]
      rw [show (dec x).length = (S.fruns x).length from (fdec_length _ _).symm]
      rw [List.drop_append]
      simp only [List.drop_eq_nil_of_le (Nat.le_add_right _ _), Nat.add_sub_cancel_left, List.nil_append]
      exact hk1.1
    cases hk' : findSub (S.fruns (x ++ s)) (S.fruns t) with
    | none =>
      exfalso
      exact (findSub_none_iff _ _).mp hk' ((dec x).length + k)
        (by rw [fruns_append x s hx]; simp [S.fruns, fdec_length]; omega) hm
    | some k' =>
      have hk2 := (findSub_some_iff _ _ _).mp hk'
      have hle : k' ≤ (dec x).length + k := by
        rcases Nat.lt_or_ge ((dec x).length + k) k' with hlt | hge
        · exact absurd hm (hk2.2.2 _ hlt)
        · exact hge
      have hlen : (dec x).length + k ≤ (dec (x ++ s)).length := by
        rw [dec_append_valid x.length x s (Nat.le_refl _) hx]; simp; omega
      have := offAt_le_of_le (x ++ s) k' _ hle hlen
      rw [offAt_append_valid_right x s hx k, h] at this
      simp only
      constructor
      · omega
      · exact_mod_cast this

/-- HasPrefix(s,t) ⇒ HasPrefix(s+y, t) -/
theorem hasPrefix_append (s y t : Bytes) (hs : Valid s) (h : S.hasPrefix s t = true) : S.hasPrefix (s ++ y) t = true := by
  rw [C09.hasPrefix_iff] at h ⊢
  rw [fruns_append s y hs]
  exact h.trans (List.prefix_append _ _)

/-- HasSuffix(s,t) ⇒ HasSuffix(x+s, t) -/
theorem hasSuffix_append (x s t : Bytes) (hx : Valid x) (h : S.hasSuffix s t = true) : S.hasSuffix (x ++ s) t = true := by
  rw [C09.hasSuffix_iff] at h ⊢
  rw [fruns_append x s hx]
  exact h.trans (List.suffix_append _ _)

example : Valid [0x78, 0xE4, 0xB8, 0x96] := by
  have : dec [0x78, 0xE4, 0xB8, 0x96] = [(0x78, 1), (0x4E16, 3)] := by decide +kernel
  intro p hp; rw [this] at hp; simp at hp; rcases hp with rfl | rfl <;> simp
end C19
