import SC.Properties.C17
import SC.Properties.C06
import SC.Properties.Src.C10
import SC.Proofs.SrcFuns
import SC.Proofs.SrcFunsB
/-!
# C17 — source-level theorems (kept apart from `SC.Properties.C17`: see `Src/C04.lean`)
-/
namespace C17
open Utf8 Spec

/-! ### Source level: the thin wrappers of the regenerated `strcase.go`

`Gen.Src.str` is the go/ssa form of `strcase.go`, regenerated from the repository on every run and run by the interpreter
`GoSsa.run` (`Model/GoSsa.lean`).  The theorems below are about **that program text**: each thin wrapper the property's
anchor names (Contains, ContainsAny, ContainsRune, EqualFold, HasPrefix, HasSuffix, CutSuffix, …) returns the value the
algorithm model `A` assigns to it, given that the separately implemented core it calls returns `A`'s value for that core.
(`GoSsa.Ret p byt fn args h vs h'`: called with `args` on heap `h`, `fn` returns `vs`, for all sufficiently large fuel.)
The cores themselves (`Compare`, `Index`, `IndexAny`, `indexRune`, `hasPrefixUnicode`, `hasSuffixUnicode`, `TrimPrefix`,
`indexByte`, `indexRuneCase`) are tied to `A` by the correspondence run (`I = G = A` on every op), not yet by proof. -/
section source
open GoSsa Gen.Src

/-- the configuration of the platform the programs were type-checked for -/
abbrev scfg : A.Cfg := GoSsa.cfg false
/-- a string argument: `root` is the argument's index -/
abbrev arg (s : Bytes) (root : Nat) : Val := .str s root 0
/-- a sub-slice of the first argument, as the model's `(offset, length)` pair denotes it -/
abbrev sub (s : Bytes) (p : S.Slice) : Val := .str ((s.drop p.1).take p.2) 0 p.1

theorem int_beq (a b : Int) : (a == b) = decide (a = b) := by
  by_cases hh : a = b <;> simp [hh]

theorem source_clamp (n : Int) (h : Heap) : Ret Gen.Src.str false str_clamp [.int n] h [.int (Utf8.clamp n)] h := Str.clamp n h

theorem source_isAlpha_all : (List.range 256).all (fun n =>
    decide ((65 ≤ (n : Int) ∧ (n : Int) ≤ 90) ∨ (97 ≤ (n : Int) ∧ (n : Int) ≤ 122)) == A.isAlpha (UInt8.ofNat n)) = true := by decide +kernel

/-- `isAlpha` of the source is `A.isAlpha`, for all 256 byte values -/
theorem source_isAlpha (c : UInt8) (h : Heap) : Ret Gen.Src.str false str_isAlpha [.int c.toNat] h [.bool (A.isAlpha c)] h := by
  have hb := List.all_eq_true.1 source_isAlpha_all c.toNat (List.mem_range.2 c.toNat_lt)
  rw [Utf8.ofNat_toNat_id] at hb
  have := Str.isAlpha (c.toNat : Int) h
  rwa [eq_of_beq hb] at this

theorem source_EqualFold (s t : Bytes) (h h' : Heap)
    (hCore : Ret Gen.Src.str false str_Compare [arg s 0, arg t 1] h [.int (A.Compare scfg s t)] h') :
    Ret Gen.Src.str false str_EqualFold [arg s 0, arg t 1] h [.bool (A.EqualFold scfg s t)] h' := by
  have := Str.EqualFold _ _ h h' _ hCore
  simpa [A.EqualFold, int_beq] using this

theorem source_Contains (s t : Bytes) (h h' : Heap)
    (hCore : Ret Gen.Src.str false str_Index [arg s 0, arg t 1] h [.int (A.Index scfg s t)] h') :
    Ret Gen.Src.str false str_Contains [arg s 0, arg t 1] h [.bool (A.Contains scfg s t)] h' := by
  have := Str.Contains _ _ h h' _ hCore
  simpa [A.Contains] using this

theorem source_ContainsAny (s t : Bytes) (h h' : Heap)
    (hCore : Ret Gen.Src.str false str_IndexAny [arg s 0, arg t 1] h [.int (A.IndexAny scfg s t)] h') :
    Ret Gen.Src.str false str_ContainsAny [arg s 0, arg t 1] h [.bool (A.ContainsAny scfg s t)] h' := by
  have := Str.ContainsAny _ _ h h' _ hCore
  simpa [A.ContainsAny] using this

theorem source_IndexRune (s : Bytes) (r : Int) (h h' : Heap)
    (hCore : Ret Gen.Src.str false str_indexRune [arg s 0, .int r] h [.int (A.indexRune scfg s r).1, .int (A.indexRune scfg s r).2] h') :
    Ret Gen.Src.str false str_IndexRune [arg s 0, .int r] h [.int (A.IndexRune scfg s r)] h' :=
  Str.IndexRune _ _ h h' _ _ hCore

theorem source_ContainsRune (s : Bytes) (r : Int) (h h' : Heap)
    (hCore : Ret Gen.Src.str false str_indexRune [arg s 0, .int r] h [.int (A.indexRune scfg s r).1, .int (A.indexRune scfg s r).2] h') :
    Ret Gen.Src.str false str_ContainsRune [arg s 0, .int r] h [.bool (A.ContainsRune scfg s r)] h' := by
  have := Str.ContainsRune _ _ h h' _ (source_IndexRune s r h h' hCore)
  simpa [A.ContainsRune] using this

theorem source_HasPrefix (s t : Bytes) (h h' : Heap)
    (hCore : Ret Gen.Src.str false str_hasPrefixUnicode [arg s 0, arg t 1] h
      [.bool (A.hasPrefixUnicode scfg s t).1, .bool (A.hasPrefixUnicode scfg s t).2] h') :
    Ret Gen.Src.str false str_HasPrefix [arg s 0, arg t 1] h [.bool (A.HasPrefix scfg s t)] h' :=
  Str.HasPrefix _ _ h h' _ _ hCore

theorem source_HasSuffix (s t : Bytes) (h h' : Heap)
    (hCore : Ret Gen.Src.str false str_hasSuffixUnicode [arg s 0, arg t 1] h
      [.bool (A.hasSuffixUnicode scfg s t).1, .int (A.hasSuffixUnicode scfg s t).2] h') :
    Ret Gen.Src.str false str_HasSuffix [arg s 0, arg t 1] h [.bool (A.HasSuffix scfg s t)] h' :=
  Str.HasSuffix _ _ h h' _ _ hCore

/-- `TrimSuffix`: the returned string is the sub-slice of the first argument the model names (never a copy, never out of range:
    a cut index beyond `len(s)` would be a panic of the source program; `C06.slices_in_range` excludes it) -/
theorem source_TrimSuffix (s t : Bytes) (h h' : Heap)
    (hCore : Ret Gen.Src.str false str_hasSuffixUnicode [arg s 0, arg t 1] h
      [.bool (A.hasSuffixUnicode scfg s t).1, .int (A.hasSuffixUnicode scfg s t).2] h') :
    Ret Gen.Src.str false str_TrimSuffix [arg s 0, arg t 1] h [sub s (A.TrimSuffix scfg s t)] h' := by
  have hk : (A.hasSuffixUnicode scfg s t).1 = true → (A.hasSuffixUnicode scfg s t).2 ≤ s.length := by
    intro hb
    have := (C06.slices_in_range scfg s t).2.2.1
    unfold C06.InRange A.TrimSuffix at this
    simpa [hb] using this
  have := Str.TrimSuffix s 0 0 (arg t 1) h h' _ _ hk hCore
  unfold A.TrimSuffix sub
  cases hb : (A.hasSuffixUnicode scfg s t).1 <;> simp [hb] at this ⊢ <;> exact this

theorem source_CutSuffix (s t : Bytes) (h h' : Heap)
    (hCore : t ≠ [] → Ret Gen.Src.str false str_hasSuffixUnicode [arg s 0, arg t 1] h
      [.bool (A.hasSuffixUnicode scfg s t).1, .int (A.hasSuffixUnicode scfg s t).2] h') :
    Ret Gen.Src.str false str_CutSuffix [arg s 0, arg t 1] h
      [sub s (A.CutSuffix scfg s t).1, .bool (A.CutSuffix scfg s t).2] (if t = [] then h else h') := by
  have hk : (A.hasSuffixUnicode scfg s t).1 = true → (A.hasSuffixUnicode scfg s t).2 ≤ s.length := by
    intro hb
    have := (C06.slices_in_range scfg s t).2.2.1
    unfold C06.InRange A.TrimSuffix at this
    simpa [hb] using this
  have := Str.CutSuffix s t 0 0 1 0 h h' _ _ hk hCore
  unfold A.CutSuffix sub
  by_cases ht : t = []
  · simp [ht] at this ⊢; exact this
  · have hl : t.length ≠ 0 := fun e => ht (List.eq_nil_of_length_eq_zero e)
    cases hb : (A.hasSuffixUnicode scfg s t).1 <;> simp [ht, hl, hb] at this ⊢ <;> exact this

theorem source_IndexByte (s : Bytes) (c : UInt8) (h h' : Heap)
    (hCore : (c = 0x4B ∨ c = 0x53 ∨ c = 0x6B ∨ c = 0x73) → Ret Gen.Src.str false str_indexByte [arg s 0, .int c.toNat] h
      [.int (A.indexByte scfg s c).1, .int (A.indexByte scfg s c).2] h') :
    Ret Gen.Src.str false str_IndexByte [arg s 0, .int c.toNat] h [.int (A.IndexByte scfg s c)]
      (if c = 0x4B ∨ c = 0x53 ∨ c = 0x6B ∨ c = 0x73 then h' else h) := by
  have hiff : ((c.toNat : Int) = 75 ∨ (c.toNat : Int) = 83 ∨ (c.toNat : Int) = 107 ∨ (c.toNat : Int) = 115) ↔
      (c = 0x4B ∨ c = 0x53 ∨ c = 0x6B ∨ c = 0x73) := by
    have e : ∀ k : UInt8, ((c.toNat : Int) = (k.toNat : Int) ↔ c = k) := fun k => by
      constructor
      · intro hh
        have hn : c.toNat = k.toNat := by omega
        rw [← Utf8.ofNat_toNat_id c, ← Utf8.ofNat_toNat_id k, hn]
      · intro hh; rw [hh]
    exact or_congr (e 75) (or_congr (e 83) (or_congr (e 107) (e 115)))
  have := Str.IndexByte s 0 0 (c.toNat : Int) h h' _ _ (fun hc => hCore (hiff.mp hc))
  unfold A.IndexByte
  by_cases hc : c = 0x4B ∨ c = 0x53 ∨ c = 0x6B ∨ c = 0x73
  · simp only [if_pos hc, if_pos (hiff.mpr hc)] at this ⊢; exact this
  · simp only [if_neg hc, if_neg (fun x => hc (hiff.mp x))] at this ⊢
    simpa [Utf8.ofNat_toNat_id] using this

theorem source_IndexNonASCII (s : Bytes) (h : Heap) :
    Ret Gen.Src.str false str_IndexNonASCII [arg s 0] h [.int (A.IndexNonASCII scfg s)] h := Str.IndexNonASCII s 0 0 h

theorem source_ContainsNonASCII (s : Bytes) (h : Heap) :
    Ret Gen.Src.str false str_ContainsNonASCII [arg s 0] h [.bool (A.ContainsNonASCII scfg s)] h := by
  have := Str.ContainsNonASCII s 0 0 h
  simpa [A.ContainsNonASCII] using this

theorem source_IndexByteASCII (s : Bytes) (c : UInt8) (h : Heap) :
    Ret Gen.Src.str false str_IndexByteASCII [arg s 0, .int c.toNat] h [.int (A.IndexByteASCII scfg s c)] h := by
  have := Str.IndexByteASCII s 0 0 (c.toNat : Int) h
  simpa [A.IndexByteASCII, Utf8.ofNat_toNat_id] using this

theorem source_containsKelvin (s : Bytes) (root off : Nat) (h : Heap)
    (hK : Ret Gen.Src.str false str_indexRuneCase [.str s root off, .int 8490] h [.int (A.indexRuneCase scfg s 0x212A)] h)
    (hF : Ret Gen.Src.str false str_indexRuneCase [.str s root off, .int 65533] h [.int (A.indexRuneCase scfg s 0xFFFD)] h) :
    Ret Gen.Src.str false str_containsKelvin [.str s root off] h [.bool (A.containsKelvin scfg s)] h := by
  have := Str.containsKelvin s root off h _ _ hK hF
  simpa [A.containsKelvin, bne, int_beq] using this

/-- `IndexByte` of the source relative to `indexRuneCase` only (through `C10.source_indexByte`) -/
theorem source_IndexByte_via_indexRuneCase (s : Bytes) (c : UInt8) (h : Heap) (hls : s.length < 4611686018427387904)
    (hCore : ∀ (s' : Bytes) (r : Int), ∃ N, ∀ fuel, N ≤ fuel →
      run Gen.Src.str false fuel (Frame.entry str_indexRuneCase [.str s' 0 0, .int r]) h = .ok [.int (A.indexRuneCase scfg s' r)] h) :
    Ret Gen.Src.str false str_IndexByte [arg s 0, .int c.toNat] h [.int (A.IndexByte scfg s c)] h := by
  have := source_IndexByte s c h h (fun _ => C10.source_indexByte s 0 0 c h hls hCore)
  simpa using this

/-- `CutPrefix`: given that `TrimPrefix` of the program returns the sub-slice `A.TrimPrefix` names, `CutPrefix` returns the
    sub-slice and flag `A.CutPrefix` names (the comparison `len(ss) != len(s)` of the source is on the slice actually returned,
    which is in range by `C06.slices_in_range`) -/
theorem source_CutPrefix (s t : Bytes) (h h' : Heap)
    (hCore : t ≠ [] → Ret Gen.Src.str false str_TrimPrefix [arg s 0, arg t 1] h [sub s (A.TrimPrefix scfg s t)] h') :
    Ret Gen.Src.str false str_CutPrefix [arg s 0, arg t 1] h
      [sub s (A.CutPrefix scfg s t).1, .bool (A.CutPrefix scfg s t).2] (if t = [] then h else h') := by
  have hr : (A.TrimPrefix scfg s t).1 + (A.TrimPrefix scfg s t).2 ≤ s.length := (C06.slices_in_range scfg s t).1
  have := Str.CutPrefix s t 0 0 1 0 h h' _ _ _ hCore
  unfold A.CutPrefix
  generalize A.TrimPrefix scfg s t = p at this hr ⊢
  obtain ⟨a, b⟩ := p
  have hlen : ((s.drop a).take b).length = b := by simp at hr ⊢; omega
  dsimp only [sub] at this hr hlen ⊢
  by_cases ht : t = []
  · simp [ht] at this ⊢; exact this
  · have hl : t.length ≠ 0 := fun e => ht (List.eq_nil_of_length_eq_zero e)
    by_cases hb : b = s.length
    · simp [ht, hl, hb] at this hlen ⊢; simpa [hlen] using this
    · simp only [hlen] at this; simp [ht, hl, hb] at this ⊢; exact this

end source

section sourceB
open GoSsa Gen.Src

/-- the same for `bytcase/bytcase.go` (`Gen.Src.byt`) -/
abbrev bcfg : A.Cfg := GoSsa.cfg true
theorem source_byt_clamp (n : Int) (h : Heap) : Ret Gen.Src.byt true byt_clamp [.int n] h [.int (Utf8.clamp n)] h := Byt.clamp n h

/-- `isAlpha` of the source is `A.isAlpha`, for all 256 byte values -/
theorem source_byt_isAlpha (c : UInt8) (h : Heap) : Ret Gen.Src.byt true byt_isAlpha [.int c.toNat] h [.bool (A.isAlpha c)] h := by
  have hb := List.all_eq_true.1 source_isAlpha_all c.toNat (List.mem_range.2 c.toNat_lt)
  rw [Utf8.ofNat_toNat_id] at hb
  have := Byt.isAlpha (c.toNat : Int) h
  rwa [eq_of_beq hb] at this

theorem source_byt_EqualFold (s t : Bytes) (h h' : Heap)
    (hCore : Ret Gen.Src.byt true byt_Compare [arg s 0, arg t 1] h [.int (A.Compare bcfg s t)] h') :
    Ret Gen.Src.byt true byt_EqualFold [arg s 0, arg t 1] h [.bool (A.EqualFold bcfg s t)] h' := by
  have := Byt.EqualFold _ _ h h' _ hCore
  simpa [A.EqualFold, int_beq] using this

theorem source_byt_Contains (s t : Bytes) (h h' : Heap)
    (hCore : Ret Gen.Src.byt true byt_Index [arg s 0, arg t 1] h [.int (A.Index bcfg s t)] h') :
    Ret Gen.Src.byt true byt_Contains [arg s 0, arg t 1] h [.bool (A.Contains bcfg s t)] h' := by
  have := Byt.Contains _ _ h h' _ hCore
  simpa [A.Contains] using this

theorem source_byt_ContainsAny (s t : Bytes) (h h' : Heap)
    (hCore : Ret Gen.Src.byt true byt_IndexAny [arg s 0, arg t 1] h [.int (A.IndexAny bcfg s t)] h') :
    Ret Gen.Src.byt true byt_ContainsAny [arg s 0, arg t 1] h [.bool (A.ContainsAny bcfg s t)] h' := by
  have := Byt.ContainsAny _ _ h h' _ hCore
  simpa [A.ContainsAny] using this

theorem source_byt_IndexRune (s : Bytes) (r : Int) (h h' : Heap)
    (hCore : Ret Gen.Src.byt true byt_indexRune [arg s 0, .int r] h [.int (A.indexRune bcfg s r).1, .int (A.indexRune bcfg s r).2] h') :
    Ret Gen.Src.byt true byt_IndexRune [arg s 0, .int r] h [.int (A.IndexRune bcfg s r)] h' :=
  Byt.IndexRune _ _ h h' _ _ hCore

theorem source_byt_ContainsRune (s : Bytes) (r : Int) (h h' : Heap)
    (hCore : Ret Gen.Src.byt true byt_indexRune [arg s 0, .int r] h [.int (A.indexRune bcfg s r).1, .int (A.indexRune bcfg s r).2] h') :
    Ret Gen.Src.byt true byt_ContainsRune [arg s 0, .int r] h [.bool (A.ContainsRune bcfg s r)] h' := by
  have := Byt.ContainsRune _ _ h h' _ (source_byt_IndexRune s r h h' hCore)
  simpa [A.ContainsRune] using this

theorem source_byt_HasPrefix (s t : Bytes) (h h' : Heap)
    (hCore : Ret Gen.Src.byt true byt_hasPrefixUnicode [arg s 0, arg t 1] h
      [.bool (A.hasPrefixUnicode bcfg s t).1, .bool (A.hasPrefixUnicode bcfg s t).2] h') :
    Ret Gen.Src.byt true byt_HasPrefix [arg s 0, arg t 1] h [.bool (A.HasPrefix bcfg s t)] h' :=
  Byt.HasPrefix _ _ h h' _ _ hCore

theorem source_byt_HasSuffix (s t : Bytes) (h h' : Heap)
    (hCore : Ret Gen.Src.byt true byt_hasSuffixUnicode [arg s 0, arg t 1] h
      [.bool (A.hasSuffixUnicode bcfg s t).1, .int (A.hasSuffixUnicode bcfg s t).2] h') :
    Ret Gen.Src.byt true byt_HasSuffix [arg s 0, arg t 1] h [.bool (A.HasSuffix bcfg s t)] h' :=
  Byt.HasSuffix _ _ h h' _ _ hCore

/-- `TrimSuffix`: the returned string is the sub-slice of the first argument the model names (never a copy, never out of range:
    a cut index beyond `len(s)` would be a panic of the source program; `C06.slices_in_range` excludes it) -/
theorem source_byt_TrimSuffix (s t : Bytes) (h h' : Heap)
    (hCore : Ret Gen.Src.byt true byt_hasSuffixUnicode [arg s 0, arg t 1] h
      [.bool (A.hasSuffixUnicode bcfg s t).1, .int (A.hasSuffixUnicode bcfg s t).2] h') :
    Ret Gen.Src.byt true byt_TrimSuffix [arg s 0, arg t 1] h [sub s (A.TrimSuffix bcfg s t)] h' := by
  have hk : (A.hasSuffixUnicode bcfg s t).1 = true → (A.hasSuffixUnicode bcfg s t).2 ≤ s.length := by
    intro hb
    have := (C06.slices_in_range bcfg s t).2.2.1
    unfold C06.InRange A.TrimSuffix at this
    simpa [hb] using this
  have := Byt.TrimSuffix s 0 0 (arg t 1) h h' _ _ hk hCore
  unfold A.TrimSuffix sub
  cases hb : (A.hasSuffixUnicode bcfg s t).1 <;> simp [hb] at this ⊢ <;> exact this

theorem source_byt_CutSuffix (s t : Bytes) (h h' : Heap)
    (hCore : t ≠ [] → Ret Gen.Src.byt true byt_hasSuffixUnicode [arg s 0, arg t 1] h
      [.bool (A.hasSuffixUnicode bcfg s t).1, .int (A.hasSuffixUnicode bcfg s t).2] h') :
    Ret Gen.Src.byt true byt_CutSuffix [arg s 0, arg t 1] h
      [sub s (A.CutSuffix bcfg s t).1, .bool (A.CutSuffix bcfg s t).2] (if t = [] then h else h') := by
  have hk : (A.hasSuffixUnicode bcfg s t).1 = true → (A.hasSuffixUnicode bcfg s t).2 ≤ s.length := by
    intro hb
    have := (C06.slices_in_range bcfg s t).2.2.1
    unfold C06.InRange A.TrimSuffix at this
    simpa [hb] using this
  have := Byt.CutSuffix s t 0 0 1 0 h h' _ _ hk hCore
  unfold A.CutSuffix sub
  by_cases ht : t = []
  · simp [ht] at this ⊢; exact this
  · have hl : t.length ≠ 0 := fun e => ht (List.eq_nil_of_length_eq_zero e)
    cases hb : (A.hasSuffixUnicode bcfg s t).1 <;> simp [ht, hl, hb] at this ⊢ <;> exact this

theorem source_byt_IndexByte (s : Bytes) (c : UInt8) (h h' : Heap)
    (hCore : (c = 0x4B ∨ c = 0x53 ∨ c = 0x6B ∨ c = 0x73) → Ret Gen.Src.byt true byt_indexByte [arg s 0, .int c.toNat] h
      [.int (A.indexByte bcfg s c).1, .int (A.indexByte bcfg s c).2] h') :
    Ret Gen.Src.byt true byt_IndexByte [arg s 0, .int c.toNat] h [.int (A.IndexByte bcfg s c)]
      (if c = 0x4B ∨ c = 0x53 ∨ c = 0x6B ∨ c = 0x73 then h' else h) := by
  have hiff : ((c.toNat : Int) = 75 ∨ (c.toNat : Int) = 83 ∨ (c.toNat : Int) = 107 ∨ (c.toNat : Int) = 115) ↔
      (c = 0x4B ∨ c = 0x53 ∨ c = 0x6B ∨ c = 0x73) := by
    have e : ∀ k : UInt8, ((c.toNat : Int) = (k.toNat : Int) ↔ c = k) := fun k => by
      constructor
      · intro hh
        have hn : c.toNat = k.toNat := by omega
        rw [← Utf8.ofNat_toNat_id c, ← Utf8.ofNat_toNat_id k, hn]
      · intro hh; rw [hh]
    exact or_congr (e 75) (or_congr (e 83) (or_congr (e 107) (e 115)))
  have := Byt.IndexByte s 0 0 (c.toNat : Int) h h' _ _ (fun hc => hCore (hiff.mp hc))
  unfold A.IndexByte
  by_cases hc : c = 0x4B ∨ c = 0x53 ∨ c = 0x6B ∨ c = 0x73
  · simp only [if_pos hc, if_pos (hiff.mpr hc)] at this ⊢; exact this
  · simp only [if_neg hc, if_neg (fun x => hc (hiff.mp x))] at this ⊢
    simpa [Utf8.ofNat_toNat_id] using this

theorem source_byt_IndexNonASCII (s : Bytes) (h : Heap) :
    Ret Gen.Src.byt true byt_IndexNonASCII [arg s 0] h [.int (A.IndexNonASCII bcfg s)] h := Byt.IndexNonASCII s 0 0 h

theorem source_byt_ContainsNonASCII (s : Bytes) (h : Heap) :
    Ret Gen.Src.byt true byt_ContainsNonASCII [arg s 0] h [.bool (A.ContainsNonASCII bcfg s)] h := by
  have := Byt.ContainsNonASCII s 0 0 h
  simpa [A.ContainsNonASCII] using this

theorem source_byt_IndexByteASCII (s : Bytes) (c : UInt8) (h : Heap) :
    Ret Gen.Src.byt true byt_IndexByteASCII [arg s 0, .int c.toNat] h [.int (A.IndexByteASCII bcfg s c)] h := by
  have := Byt.IndexByteASCII s 0 0 (c.toNat : Int) h
  simpa [A.IndexByteASCII, Utf8.ofNat_toNat_id] using this

theorem source_byt_containsKelvin (s : Bytes) (root off : Nat) (h : Heap)
    (hK : Ret Gen.Src.byt true byt_indexRuneCase [.str s root off, .int 8490] h [.int (A.indexRuneCase bcfg s 0x212A)] h)
    (hF : Ret Gen.Src.byt true byt_indexRuneCase [.str s root off, .int 65533] h [.int (A.indexRuneCase bcfg s 0xFFFD)] h) :
    Ret Gen.Src.byt true byt_containsKelvin [.str s root off] h [.bool (A.containsKelvin bcfg s)] h := by
  have := Byt.containsKelvin s root off h _ _ hK hF
  simpa [A.containsKelvin, bne, int_beq] using this

/-- `CutPrefix`: given that `TrimPrefix` of the program returns the sub-slice `A.TrimPrefix` names, `CutPrefix` returns the
    sub-slice and flag `A.CutPrefix` names (the comparison `len(ss) != len(s)` of the source is on the slice actually returned,
    which is in range by `C06.slices_in_range`) -/
theorem source_byt_CutPrefix (s t : Bytes) (h h' : Heap)
    (hCore : t ≠ [] → Ret Gen.Src.byt true byt_TrimPrefix [arg s 0, arg t 1] h [sub s (A.TrimPrefix bcfg s t)] h') :
    Ret Gen.Src.byt true byt_CutPrefix [arg s 0, arg t 1] h
      [sub s (A.CutPrefix bcfg s t).1, .bool (A.CutPrefix bcfg s t).2] (if t = [] then h else h') := by
  have hr : (A.TrimPrefix bcfg s t).1 + (A.TrimPrefix bcfg s t).2 ≤ s.length := (C06.slices_in_range bcfg s t).1
  have := Byt.CutPrefix s t 0 0 1 0 h h' _ _ _ hCore
  unfold A.CutPrefix
  generalize A.TrimPrefix bcfg s t = p at this hr ⊢
  obtain ⟨a, b⟩ := p
  have hlen : ((s.drop a).take b).length = b := by simp at hr ⊢; omega
  dsimp only [sub] at this hr hlen ⊢
  by_cases ht : t = []
  · simp [ht] at this ⊢; exact this
  · have hl : t.length ≠ 0 := fun e => ht (List.eq_nil_of_length_eq_zero e)
    by_cases hb : b = s.length
    · simp [ht, hl, hb] at this hlen ⊢; simpa [hlen] using this
    · simp only [hlen] at this; simp [ht, hl, hb] at this ⊢; exact this

end sourceB
end C17
