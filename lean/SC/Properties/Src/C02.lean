import SC.Properties.C02
import SC.Proofs.SrcCompare
import SC.Proofs.SrcCompareB2
import SC.Proofs.SrcEqualFold
import SC.Proofs.SrcEqualFoldB
/-!
# C02 — source-level theorems

Theorems about the **regenerated program text** (`Gen.Src.*`, the go/ssa form of the Go source; DESIGN.md 0.8).  Kept in a module of their own:
their proofs follow the shape of the compiled source, so an edit of the function they are about breaks them (and only this module) whether or
not it changes behaviour; `bin/check C02` builds and audits this module together with `SC.Properties.C02`.
-/
namespace C02
open Utf8 Fold
/-- **Source level** (`Gen.Src.str`, the go/ssa form of `strcase.go` regenerated on every run): the program text of `strcase.EqualFold`
    (`Compare(s, t) == 0`, with `Compare`'s byte loop and rune loop: `C04.source_compare`) returns `S.equalFold s t` for all byte strings
    shorter than 2^62 bytes — and that value is what the transliteration of `strings.EqualFold` returns (`equalFold_eq_std`):
    the property itself, with the strcase side stated about the regenerated source rather than a hand-written model.
    (`strings.EqualFold` = `Std.equalFoldS` and `bytcase` are tied by the correspondence run.) -/
theorem source_equalFold (s t : Bytes) (h : GoSsa.Heap)
    (hls : s.length < 4611686018427387904) (hlt : t.length < 4611686018427387904) :
    GoSsa.Ret Gen.Src.str false Gen.Src.str_EqualFold [.str s 0 0, .str t 1 0] h [.bool (S.equalFold s t)] h ∧
    Std.equalFoldS s t = some (S.equalFold s t) := by
  have hc := GoSsa.Str.Compare Gen.Src.str GoSsa.Str.find_clamp s t 0 0 1 0 h hls hlt
  have hw := GoSsa.Str.EqualFold_of_Compare _ _ h h _ hc
  have e : decide (A.Compare (GoSsa.cfg false) s t = 0) = A.EqualFold (GoSsa.cfg false) s t := by
    unfold A.EqualFold
    by_cases hh : A.Compare (GoSsa.cfg false) s t = 0 <;> simp [hh]
  rw [e, equalFold_refines] at hw
  refine ⟨hw, ?_⟩
  have := (equalFold_eq_std (GoSsa.cfg false) s t).1
  rwa [equalFold_refines] at this
/-- the other half of the property: the program text of **`bytcase.EqualFold`** returns `S.equalFold s t`, which is what the transliteration
    of `bytes.EqualFold` returns — for all byte strings < 2^62 bytes -/
theorem source_equalFold_bytcase (s t : Bytes) (h : GoSsa.Heap)
    (hls : s.length < 4611686018427387904) (hlt : t.length < 4611686018427387904) :
    GoSsa.Ret Gen.Src.byt true Gen.Src.byt_EqualFold [.str s 0 0, .str t 1 0] h [.bool (S.equalFold s t)] h ∧
    Std.equalFoldB s t = some (S.equalFold s t) := by
  have hc := GoSsa.Byt.Compare Gen.Src.byt GoSsa.Byt.find_clamp s t 0 0 1 0 h hls hlt
  have hw := GoSsa.Byt.EqualFold_of_Compare _ _ h h _ hc
  have e : decide (A.Compare (GoSsa.cfg true) s t = 0) = A.EqualFold (GoSsa.cfg true) s t := by
    unfold A.EqualFold
    by_cases hh : A.Compare (GoSsa.cfg true) s t = 0 <;> simp [hh]
  rw [e, equalFold_refines] at hw
  refine ⟨hw, ?_⟩
  have := (equalFold_eq_std (GoSsa.cfg true) s t).2
  rwa [equalFold_refines] at this
end C02
