import SC.Properties.C10
import SC.Proofs.SrcIndexByte
import SC.Proofs.SrcIndexByteB
import SC.Proofs.SrcIndexRune2
import SC.Proofs.SrcIndexRune2B
/-!
# C10 — source-level theorems

Theorems about the **regenerated program text** (`Gen.Src.*`, the go/ssa form of the Go source; DESIGN.md 0.8).  Kept in a module of their own:
their proofs follow the shape of the compiled source, so an edit of the function they are about breaks them (and only this module) whether or
not it changes behaviour; `bin/check C10` builds and audits this module together with `SC.Properties.C10`.
-/
namespace C10
open Utf8
/-- **Source level** (`Gen.Src.str`, the go/ssa form of `strcase.go` regenerated on every run): the program text of `indexByte` — letter
    dispatch for `K k S s`, the call of the byte kernel, the re-slice `s[:n]`, the choice between the ASCII hit and the start of U+212A /
    U+017F — returns the algorithm model's `A.indexByte`, for every string shorter than 2^62 bytes and every byte value, **given that**
    the program text of `indexRuneCase` returns the model's `A.indexRuneCase` (that core is tied by the correspondence run only). -/
theorem source_indexByte (s : Bytes) (root off : Nat) (c : UInt8) (h : GoSsa.Heap) (hls : s.length < 4611686018427387904)
    (hCore : ∀ (s' : Bytes) (r : Int), ∃ N, ∀ fuel, N ≤ fuel →
      GoSsa.run Gen.Src.str false fuel (GoSsa.Frame.entry Gen.Src.str_indexRuneCase [.str s' root off, .int r]) h =
        .ok [.int (A.indexRuneCase (GoSsa.cfg false) s' r)] h) :
    GoSsa.Ret Gen.Src.str false Gen.Src.str_indexByte [.str s root off, .int c.toNat] h
      [.int (A.indexByte (GoSsa.cfg false) s c).1, .int (A.indexByte (GoSsa.cfg false) s c).2] h :=
  GoSsa.Str.indexByte s root off c h hls hCore
/-- the same for `bytcase.indexByte` (`Gen.Src.byt`; the proof is the strcase one with the names exchanged — the two functions have the same
    go/ssa shape, and this module stops compiling if they ever differ) -/
theorem source_indexByte_bytcase (s : Bytes) (root off : Nat) (c : UInt8) (h : GoSsa.Heap) (hls : s.length < 4611686018427387904)
    (hCore : ∀ (s' : Bytes) (r : Int), ∃ N, ∀ fuel, N ≤ fuel →
      GoSsa.run Gen.Src.byt true fuel (GoSsa.Frame.entry Gen.Src.byt_indexRuneCase [.str s' root off, .int r]) h =
        .ok [.int (A.indexRuneCase (GoSsa.cfg true) s' r)] h) :
    GoSsa.Ret Gen.Src.byt true Gen.Src.byt_indexByte [.str s root off, .int c.toNat] h
      [.int (A.indexByte (GoSsa.cfg true) s c).1, .int (A.indexByte (GoSsa.cfg true) s c).2] h :=
  GoSsa.Byt.indexByte s root off c h hls hCore
/-- **Source level**: `indexRune2` — how `IndexRune` searches a code point whose orbit is an upper/lower pair — on the program text of
    `strcase.go`, relative to `indexRuneCase`: for valid `lower`, `upper` it returns the algorithm model's `A.indexRune2` (offset and width
    of the first occurrence of either), every string shorter than 2^62 bytes -/
theorem source_indexRune2 (s : Bytes) (root off : Nat) (lower upper : Nat) (hvl : validRune lower) (hvu : validRune upper) (h : GoSsa.Heap)
    (hls : s.length < 4611686018427387904)
    (hCore : ∀ (s' : Bytes) (r : Int), ∃ N, ∀ fuel, N ≤ fuel →
      GoSsa.run Gen.Src.str false fuel (GoSsa.Frame.entry Gen.Src.str_indexRuneCase [.str s' root off, .int r]) h =
        .ok [.int (A.indexRuneCase (GoSsa.cfg false) s' r)] h) :
    GoSsa.Ret Gen.Src.str false Gen.Src.str_indexRune2 [.str s root off, .int lower, .int upper] h
      [.int (A.indexRune2 (GoSsa.cfg false) s lower upper).1, .int (A.indexRune2 (GoSsa.cfg false) s lower upper).2] h :=
  GoSsa.Str.indexRune2 s root off lower upper hvl hvu h hls hCore
/-- the same for `bytcase.indexRune2` (`Gen.Src.byt`; same go/ssa shape, proof by renaming) -/
theorem source_indexRune2_bytcase (s : Bytes) (root off : Nat) (lower upper : Nat) (hvl : validRune lower) (hvu : validRune upper) (h : GoSsa.Heap)
    (hls : s.length < 4611686018427387904)
    (hCore : ∀ (s' : Bytes) (r : Int), ∃ N, ∀ fuel, N ≤ fuel →
      GoSsa.run Gen.Src.byt true fuel (GoSsa.Frame.entry Gen.Src.byt_indexRuneCase [.str s' root off, .int r]) h =
        .ok [.int (A.indexRuneCase (GoSsa.cfg true) s' r)] h) :
    GoSsa.Ret Gen.Src.byt true Gen.Src.byt_indexRune2 [.str s root off, .int lower, .int upper] h
      [.int (A.indexRune2 (GoSsa.cfg true) s lower upper).1, .int (A.indexRune2 (GoSsa.cfg true) s lower upper).2] h :=
  GoSsa.Byt.indexRune2 s root off lower upper hvl hvu h hls hCore
end C10
