import SC.Properties.C07
import SC.Properties.Src.C04
import SC.Properties.Src.C02
/-!
# C07 — source-level theorems (kept apart from `SC.Properties.C07`: see `Src/C04.lean`)
-/
namespace C07
open Utf8

/-- **Source level**: on the same bytes the regenerated program texts of `strcase.Compare` and `bytcase.Compare` — two differently
    written rune loops — return the same value, and so do the two `EqualFold`s; for all byte strings shorter than 2^62 bytes -/
theorem source_compare_parity (s t : Bytes) (h : GoSsa.Heap)
    (hls : s.length < 4611686018427387904) (hlt : t.length < 4611686018427387904) :
    ∃ (c : Int) (b : Bool),
      GoSsa.Ret Gen.Src.str false Gen.Src.str_Compare [.str s 0 0, .str t 1 0] h [.int c] h ∧
      GoSsa.Ret Gen.Src.byt true Gen.Src.byt_Compare [.str s 0 0, .str t 1 0] h [.int c] h ∧
      GoSsa.Ret Gen.Src.str false Gen.Src.str_EqualFold [.str s 0 0, .str t 1 0] h [.bool b] h ∧
      GoSsa.Ret Gen.Src.byt true Gen.Src.byt_EqualFold [.str s 0 0, .str t 1 0] h [.bool b] h :=
  ⟨_, _, C04.source_compare s t 0 0 1 0 h hls hlt, C04.source_compare_bytcase s t 0 0 1 0 h hls hlt,
    (C02.source_equalFold s t h hls hlt).1, (C02.source_equalFold_bytcase s t h hls hlt).1⟩
end C07
