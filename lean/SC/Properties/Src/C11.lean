import SC.Properties.C11
import SC.Proofs.SrcAsciiSet
import SC.Proofs.SrcAsciiSetB
/-!
# C11 — source-level theorems (kept apart from `SC.Properties.C11`: see `Src/C04.lean`)
-/
namespace C11
open Utf8 GoSsa Gen.Src

/-- **Source level** (`Gen.Src.str`, regenerated on every run): the membership test of the ASCII fast path of `IndexAny` / `LastIndexAny` —
    `(*asciiSet).contains(c)` — on the program text: for a receiver pointing at an eight-word set it returns bit `c % 32` of word `c / 32`
    (in the interpreter's 32-bit arithmetic), for every byte `c`; the read goes through a pointer into the caller's array and stays inside it
    (`c / 32 < 8`), no write happens.  (`makeASCIISet` and the strategy selection are tied by the correspondence run only.) -/
theorem source_asciiSet_contains (cell : Nat) (h : Heap) (vs : List Int) (hv : vs.length = 8) (hc : h.getD cell .nil = .arr vs) (c : UInt8) :
    Ret Gen.Src.str false str_asciiSet_contains [.ptr cell, .int c.toNat] h
      [.bool (decide (wrap .u32 ((toU .u32 (vs.getD (c.toNat / 32) 0) &&& toU .u32 (wrap .u32 ((toU .u32 1 <<< (c.toNat % 32) : Nat) : Int)) : Nat) : Int) ≠ 0))] h :=
  Str.asciiSet_contains cell h vs hv hc c
/-- the same for `bytcase` (`Gen.Src.byt`) -/
theorem source_asciiSet_contains_bytcase (cell : Nat) (h : Heap) (vs : List Int) (hv : vs.length = 8) (hc : h.getD cell .nil = .arr vs) (c : UInt8) :
    Ret Gen.Src.byt true byt_asciiSet_contains [.ptr cell, .int c.toNat] h
      [.bool (decide (wrap .u32 ((toU .u32 (vs.getD (c.toNat / 32) 0) &&& toU .u32 (wrap .u32 ((toU .u32 1 <<< (c.toNat % 32) : Nat) : Int)) : Nat) : Int) ≠ 0))] h :=
  Byt.asciiSet_contains cell h vs hv hc c
end C11
