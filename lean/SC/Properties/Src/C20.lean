import SC.Properties.C20
import SC.Proofs.SrcLoops
import SC.Proofs.SrcLoopsB
/-!
# C20 — source-level theorems

Theorems about the **regenerated program text** (`Gen.Src.*`, the go/ssa form of the Go source; DESIGN.md 0.8).  Kept in a module of their own:
their proofs follow the shape of the compiled source, so an edit of the function they are about breaks them (and only this module) whether or
not it changes behaviour; `bin/check C20` builds and audits this module together with `SC.Properties.C20`.
-/
namespace C20
open Utf8
/-- **Source level** (`Gen.Src.str`: the go/ssa form of `strcase.go` regenerated on every run): the guard of the fast path that hands
    the search to the standard library's byte search — `nonLetterASCII`, a loop over the bytes of the needle — returns, on the program
    text itself, what the algorithm model's `A.nonLetterASCII` says, for every string shorter than 2^62 bytes (the bound keeps
    the 64-bit loop counter from wrapping).  Proved by a loop invariant over interpreter frames (`Proofs/SrcLoops.lean`). -/
theorem source_nonLetterASCII (s : Bytes) (root off : Nat) (h : GoSsa.Heap) (hlen : s.length < 4611686018427387904) :
    GoSsa.Ret Gen.Src.str false Gen.Src.str_nonLetterASCII [.str s root off] h [.bool (A.nonLetterASCII s)] h :=
  GoSsa.Str.nonLetterASCII s root off h hlen
/-- the same for `bytcase.nonLetterASCII` (`Gen.Src.byt`) -/
theorem source_nonLetterASCII_bytcase (s : Bytes) (root off : Nat) (h : GoSsa.Heap) (hlen : s.length < 4611686018427387904) :
    GoSsa.Ret Gen.Src.byt true Gen.Src.byt_nonLetterASCII [.str s root off] h [.bool (A.nonLetterASCII s)] h :=
  GoSsa.Byt.nonLetterASCII s root off h hlen
end C20
