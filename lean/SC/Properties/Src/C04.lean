import SC.Properties.C04
import SC.Proofs.SrcCompare
import SC.Proofs.SrcCompareB2
import SC.Proofs.SrcNames
import SC.Proofs.SrcNamesB
/-!
# C04 — source-level theorems

Theorems about the **regenerated program text** (`Gen.Src.*`, the go/ssa form of the Go source; DESIGN.md 0.8).  Kept in a module of their own:
their proofs follow the shape of the compiled source, so an edit of the function they are about breaks them (and only this module) whether or
not it changes behaviour; `bin/check C04` builds and audits this module together with `SC.Properties.C04`.
-/
namespace C04
open Utf8
/-- **Source level** (`Gen.Src.str`: the go/ssa form of `strcase.go`, regenerated from the repository on every run and run by the interpreter
    `GoSsa.run`): the program text of `strcase.Compare` — the byte loop with its `_lower` comparison and `clamp(len(s)-len(t))` exit, the
    jump to the rune loop at the first non-ASCII byte, the `range` iterator over `s[i:]`, the `_lower` shortcut / `utf8.DecodeRuneInString`
    on `t`, `tables.CaseFold`, `clamp` of the difference of the folds — returns `S.compare s t`, the lexicographic comparison of the folded
    code-point sequences, **for all byte strings** (well-formed or not) shorter than 2^62 bytes (the bound keeps the 64-bit loop counter
    from wrapping; Go strings are shorter than 2^63).  Two loop invariants over interpreter frames (`Proofs/SrcCompare.lean`), composed with
    `compare_refines`.  With this the laws above (`compare_zero_iff`, `compare_antisymm`, `compare_trans`, `compare_congr`, …) are laws
    of the program text of `strcase.Compare`, not only of a hand-written model of it.  (`bytcase.Compare` has a different rune loop —
    both sides decoded eagerly — and is tied at this level by the correspondence run only.) -/
theorem source_compare (s t : Bytes) (r0 o0 r1 o1 : Nat) (h : GoSsa.Heap)
    (hls : s.length < 4611686018427387904) (hlt : t.length < 4611686018427387904) :
    GoSsa.Ret Gen.Src.str false Gen.Src.str_Compare [.str s r0 o0, .str t r1 o1] h [.int (S.compare s t)] h := by
  have := GoSsa.Str.Compare Gen.Src.str GoSsa.Str.find_clamp s t r0 o0 r1 o1 h hls hlt
  rwa [compare_refines] at this

/-- non-vacuity / a concrete instance: `"Straße"` against `"STRAẞE"` (ß U+00DF / ẞ U+1E9E, different widths) compare equal -/
example : S.compare [0x53, 0x74, 0x72, 0x61, 0xC3, 0x9F, 0x65] [0x53, 0x54, 0x52, 0x41, 0xE1, 0xBA, 0x9E, 0x45] = 0 := by decide +kernel
/-- the same for **`bytcase.Compare`** (`Gen.Src.byt`): its byte loop and its own rune loop — both arguments decoded and folded eagerly,
    four decode combinations — on the program text (`Proofs/SrcCompareB.lean`, `SrcCompareB2.lean`), for all byte strings < 2^62 bytes -/
theorem source_compare_bytcase (s t : Bytes) (r0 o0 r1 o1 : Nat) (h : GoSsa.Heap)
    (hls : s.length < 4611686018427387904) (hlt : t.length < 4611686018427387904) :
    GoSsa.Ret Gen.Src.byt true Gen.Src.byt_Compare [.str s r0 o0, .str t r1 o1] h [.int (S.compare s t)] h := by
  have := GoSsa.Byt.Compare Gen.Src.byt GoSsa.Byt.find_clamp s t r0 o0 r1 o1 h hls hlt
  rwa [compare_refines] at this
end C04
