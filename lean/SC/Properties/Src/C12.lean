import SC.Properties.C12
import SC.Properties.C06
import SC.Proofs.SrcCut
/-!
# C12 — source-level theorems (kept apart from `SC.Properties.C12`: see `Src/C04.lean`)
-/
namespace C12
open Utf8 GoSsa Gen.Src

/-- **Source level** (`Gen.Src.str`, the go/ssa form of `strcase.go` regenerated on every run): the program text of `Cut`, given that the
    program text of `Index` returns the algorithm model's `A.Index` (which is −1 or an offset within `s`: `C06.index_total`), returns
    `(s, "", false)` when there is no match, and otherwise `before = s[:i]` and `after = s[i:]` with exactly as many code points skipped
    as `sep` has — a sub-slice of `s` at the offset where it lies (`GoSsa.Str.cutRes`); the program panics (indexing `after[0]` of an
    empty string) exactly when `s[i:]` has fewer code points than `sep`, which a correct `Index` excludes (`C12`'s `A.Cut = S.cut`). -/
theorem source_Cut (s sep : Bytes) (h h' : Heap) (hls : s.length < 4611686018427387904)
    (hCore : Ret Gen.Src.str false str_Index [.str s 0 0, .str sep 1 0] h [.int (A.Index (GoSsa.cfg false) s sep)] h') :
    ∃ n, ∀ fuel, n ≤ fuel → run Gen.Src.str false fuel (Frame.entry str_Cut [.str s 0 0, .str sep 1 0]) h =
      if A.Index (GoSsa.cfg false) s sep < 0 then .ok [.str s 0 0, .str [] 99 0, .bool false] h'
      else Str.cutRes s 0 0 (A.Index (GoSsa.cfg false) s sep).toNat h' (s.drop (A.Index (GoSsa.cfg false) s sep).toNat)
        (0 + (A.Index (GoSsa.cfg false) s sep).toNat) (Str.skipR (dec sep).length (s.drop (A.Index (GoSsa.cfg false) s sep).toNat)) := by
  have hr := C06.index_total (GoSsa.cfg false) s sep
  exact Str.Cut s sep 0 0 1 0 h h' _ ⟨hr.2.2.1, hr.2.2.2⟩ hls hCore
end C12
