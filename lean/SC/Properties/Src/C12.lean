import SC.Properties.C12
import SC.Properties.C06
import SC.Proofs.SrcCut
import SC.Proofs.SrcCutB
import SC.Proofs.SrcCountRune
import SC.Proofs.SrcCountRuneB
/-!
# C12 — source-level theorems (kept apart from `SC.Properties.C12`: see `Src/C04.lean`)
-/
namespace C12
open Utf8 GoSsa Gen.Src

/-- **Source level** (`Gen.Src.str`, the go/ssa form of `strcase.go` regenerated on every run): the program text of `Cut`, given that the
    program text of `Index` returns the algorithm model's `A.Index` (which is −1 or an offset within `s`: `C06.index_total`), returns
    `(s, "", false)` when there is no match, and otherwise `before = s[:i]` and `after = s[i:]` with exactly as many code points skipped
    as `sep` has — a sub-slice of `s` at the offset where it lies (`GoSsa.Str.cutRes`); the program panics (indexing `after[0]` of an
    empty string) exactly when `s[i:]` has fewer code points than `sep`, which a correct `Index` excludes (`C12`'s `A.Cut = S.cut`). -/
theorem source_Cut (s sep : Bytes) (h h' : Heap) (hls : s.length < 4611686018427387904)
    (hCore : Ret Gen.Src.str false str_Index [.str s 0 0, .str sep 1 0] h [.int (A.Index (GoSsa.cfg false) s sep)] h') :
    ∃ n, ∀ fuel, n ≤ fuel → run Gen.Src.str false fuel (Frame.entry str_Cut [.str s 0 0, .str sep 1 0]) h =
      if A.Index (GoSsa.cfg false) s sep < 0 then .ok [.str s 0 0, .str [] 99 0, .bool false] h'
      else Str.cutRes s 0 0 (A.Index (GoSsa.cfg false) s sep).toNat h' (s.drop (A.Index (GoSsa.cfg false) s sep).toNat)
        (0 + (A.Index (GoSsa.cfg false) s sep).toNat) (Str.skipR (dec sep).length (s.drop (A.Index (GoSsa.cfg false) s sep).toNat)) := by
  have hr := C06.index_total (GoSsa.cfg false) s sep
  exact Str.Cut s sep 0 0 1 0 h h' _ ⟨hr.2.2.1, hr.2.2.2⟩ hls hCore
/-- the same for **`bytcase.Cut`** (`Gen.Src.byt`), whose loop is written differently (a counter `n := utf8.RuneCount(sep)` that also stops
    when `after` is exhausted, so it cannot panic): relative to `Index`, `before = s[:i]` and `after` = `s[i:]` with up to `RuneCount(sep)` code
    points skipped, as sub-slices of `s`; `(s, nil, false)` when there is no match -/
theorem source_Cut_bytcase (s sep : Bytes) (h h' : Heap) (hls : s.length < 4611686018427387904) (hlp : sep.length < 4611686018427387904)
    (hCore : Ret Gen.Src.byt true byt_Index [.str s 0 0, .str sep 1 0] h [.int (A.Index (GoSsa.cfg true) s sep)] h') :
    Ret Gen.Src.byt true byt_Cut [.str s 0 0, .str sep 1 0] h
      (if A.Index (GoSsa.cfg true) s sep < 0 then [.str s 0 0, .nil, .bool false]
       else [.str (s.take (A.Index (GoSsa.cfg true) s sep).toNat) 0 0,
             .str (Byt.skipB (dec sep).length (s.drop (A.Index (GoSsa.cfg true) s sep).toNat)) 0
               (0 + (A.Index (GoSsa.cfg true) s sep).toNat + ((s.drop (A.Index (GoSsa.cfg true) s sep).toNat).length -
                 (Byt.skipB (dec sep).length (s.drop (A.Index (GoSsa.cfg true) s sep).toNat)).length)),
             .bool true]) h' := by
  have hr := C06.index_total (GoSsa.cfg true) s sep
  exact Byt.Cut s sep 0 0 1 0 h h' _ ⟨hr.2.2.1, hr.2.2.2⟩ hls hlp hCore

/-- where strcase's loop does not run out of `s`, the two loops leave the same `after` -/
theorem source_Cut_loops_agree : ∀ (o : Nat) (s rest : Bytes), Str.skipR o s = some rest → Byt.skipB o s = rest
  | 0, s, rest, h => by simp [Str.skipR] at h; simp [Byt.skipB, h]
  | o+1, [], rest, h => by simp [Str.skipR] at h
  | o+1, b :: r, rest, h => by
    simp only [Str.skipR] at h
    simp only [Byt.skipB]
    exact source_Cut_loops_agree o _ rest h
/-- **Source level**: `countRune` — what `Count` adds for a one-byte needle `K k S s` (the occurrences of U+212A resp. U+017F) — on the
    program text of `strcase.go`, relative to `indexRuneCase`: it returns the number of code points of `s` equal to `r`
    (`A.countRune_spec`), for a valid rune other than U+FFFD and every string shorter than 2^62 bytes -/
theorem source_countRune (s : Bytes) (root off : Nat) (r : Nat) (hv : validRune r) (hr : r ≠ 0xFFFD) (h : Heap) (hls : s.length < 4611686018427387904)
    (hCore : ∀ (s' : Bytes) (off' : Nat), ∃ N, ∀ fuel, N ≤ fuel →
      run Gen.Src.str false fuel (Frame.entry str_indexRuneCase [.str s' root off', .int r]) h =
        .ok [.int (A.indexRuneCase (GoSsa.cfg false) s' r)] h) :
    Ret Gen.Src.str false str_countRune [.str s root off, .int r] h [.int (((dec s).countP (fun p => p.1 == r) : Nat) : Int)] h := by
  have := Str.countRune s root off r hv hr h hls hCore
  rw [A.countRune_spec (GoSsa.cfg false) r hv hr (s.length + 1) s 0 (by omega)] at this
  simpa using this
/-- the same for `bytcase.countRune` (`Gen.Src.byt`; same go/ssa shape, proof by renaming) -/
theorem source_countRune_bytcase (s : Bytes) (root off : Nat) (r : Nat) (hv : validRune r) (hr : r ≠ 0xFFFD) (h : Heap) (hls : s.length < 4611686018427387904)
    (hCore : ∀ (s' : Bytes) (off' : Nat), ∃ N, ∀ fuel, N ≤ fuel →
      run Gen.Src.byt true fuel (Frame.entry byt_indexRuneCase [.str s' root off', .int r]) h =
        .ok [.int (A.indexRuneCase (GoSsa.cfg true) s' r)] h) :
    Ret Gen.Src.byt true byt_countRune [.str s root off, .int r] h [.int (((dec s).countP (fun p => p.1 == r) : Nat) : Int)] h := by
  have := Byt.countRune s root off r hv hr h hls hCore
  rw [A.countRune_spec (GoSsa.cfg true) r hv hr (s.length + 1) s 0 (by omega)] at this
  simpa using this
end C12
