import SC.Proofs.SpecIndex
import SC.Proofs.CountIdx
import SC.Proofs.RCountByte
/-!
# C12 — Count counts greedy non-overlapping matches; Cut splits around the first one
-/
namespace C12
open Utf8 Spec

/-- empty needle: number of code points + 1 -/
theorem count_empty (s : Bytes) : S.count s [] = S.nrunes s + 1 := by simp [S.count]

/-- the specification's greedy scan equals "take the leftmost match, resume right after its last
    code point, repeat" (the way the code computes it) -/
theorem count_greedy (s t : Bytes) (ht : S.fruns t ≠ []) :
    S.count s t = countIdx (s.length + 1) (S.fruns s) (S.fruns t) := by
  have hne : t ≠ [] := by intro h; subst h; exact ht (by simp [S.fruns, fdec, dec_nil])
  unfold S.count
  rw [if_neg hne]
  symm
  apply countIdx_eq_countFrom _ ht
  have : (S.fruns s).length ≤ s.length := by
    rw [show (S.fruns s).length = (dec s).length from fdec_length _ _]
    have h1 := offAt_length s
    have : ∀ k, k ≤ (dec s).length → k ≤ offAt s k := by
      intro k
      induction k with
      | zero => intro _; omega
      | succ k ih => intro hk; have := offAt_lt_succ s k (by omega); have := ih (by omega); omega
    have := this _ (Nat.le_refl _); omega
  omega

/-- Cut: not found ⇒ (s, empty, false) -/
theorem cut_notfound (s t : Bytes) (h : S.index s t = -1) : S.cut s t = ((0, s.length), (0, 0), false) := by
  unfold S.index at h; unfold S.cut
  cases hk : S.indexK s t with
  | none => rfl
  | some k => rw [hk] at h; simp at h

/-- Cut: found ⇒ before = s[:i] with i = Index, after = s[j:] with j the boundary after the
    matched code points; before ++ matched ++ after = s -/
theorem cut_found (s t : Bytes) (k : Nat) (h : S.indexK s t = some k) :
    S.index s t = offAt s k ∧
    S.cut s t = ((0, offAt s k), (offAt s (k + S.nrunes t), s.length - offAt s (k + S.nrunes t)), true) ∧
    offAt s k ≤ offAt s (k + S.nrunes t) := by
  have hk := (findSub_some_iff _ _ _).mp h
  have hlen : k + S.nrunes t ≤ (dec s).length := by
    have := hk.1.length_le
    simp only [S.fruns, fdec, List.length_map, List.length_drop, S.nrunes] at this ⊢
    have := hk.2.1; simp only [S.fruns, fdec, List.length_map] at this; omega
  refine ⟨by simp [S.index, h], by simp [S.cut, h], offAt_mono s _ _ hlen⟩

/-! ### Refinement: `A.Count` and `A.Cut` equal the specification

For **every** pair of byte strings, both packages: the general loop (`Index`, then skip as many code points
of `s` as the needle has, by their *decoded* widths — the pinned tree used `RuneLen` here, finding D3), the
one-byte path (byte-count kernel + `countRune` for K/k → U+212A, S/s → U+017F; a one-byte ill-formed needle
goes through the general path — finding D8), the empty needle; `Cut` never reaches its panic branch. -/

theorem count_refines (cfg : A.Cfg) (s sub : Bytes) : A.Count cfg s sub = (S.count s sub : Nat) := A.Count_eq cfg s sub
theorem cut_refines (cfg : A.Cfg) (s sep : Bytes) : A.Cut cfg s sep = some (S.cut s sep) := A.Cut_eq cfg s sep

/-- the byte-count kernel counts exactly the ASCII members of the orbit, `countRune` the occurrences of one rune -/
theorem kernel_count_is_orbit_count (c : UInt8) (hc : c < 0x80) (s : Bytes) :
    A.kCount s c = (dec s).countP (fun p => A.asciiPart c p.1) := A.kCount_spec c hc s.length s (Nat.le_refl _)

example : S.count [0x4B, 0x6B, 0xE2, 0x84, 0xAA] [0x6B] = 3 ∧ S.count [0x61, 0x61, 0x61] [0x41, 0x61] = 1 ∧
    S.cut [0x78, 0xE2, 0x84, 0xAA, 0x79] [0x4B] = ((0, 1), (4, 1), true) := by decide +kernel
end C12
