import SC.Proofs.KernGen
import SC.Proofs.RIndex
import SC.Proofs.RSuffix
import SC.Proofs.RIndexAny6
/-!
# C14 — results do not depend on the CPU features or backend the build selects

The algorithm model calls the byte kernels through their scalar definitions
(`S.kernIndexByte`, `S.kernCount`, `S.indexNonASCII`).  Each backend is shown equal to those
definitions: the portable Go implementations and the no-POPCNT fall-back here (for every input),
the SSE/AVX2 assembly paths through the block model of C13.  The real binaries are additionally
built and run in five configurations (default, `GODEBUG=cpu.avx2=off`, `cpu.popcnt=off`,
`GOAMD64=v3`, `GOARCH=386` = portable file set) on the same ops and compared with the model.
-/
namespace C14
open Utf8 Kern

theorem generic_indexByte (s : Bytes) (c : UInt8) : genIndexByte s c = S.kernIndexByte s c := genIndexByte_eq s c
theorem generic_count (s : Bytes) (c : UInt8) : genCount s c = S.kernCount s c := genCount_eq s c
theorem generic_indexNonASCII (s : Bytes) : genIndexNonASCII s 0 = S.indexNonASCII s := genIndexNonASCII_eq s 0

/-- functions that never consult the backend switches -/
theorem compare_backend_free (cfg : A.Cfg) (n a : Bool) (s t : Bytes) :
    A.Compare { cfg with native := n, arm64 := a } s t = A.Compare cfg s t := rfl

/-- the `NativeIndex` / portable branches of `indexRuneCase` and `Index`, and the two `Cutover` formulas,
    give the same results: every configuration refines the same specification -/
theorem index_backend_free (cfg : A.Cfg) (n a : Bool) (s sub : Bytes) (r : Int) :
    A.Index { cfg with native := n, arm64 := a } s sub = A.Index cfg s sub ∧
    A.IndexRune { cfg with native := n, arm64 := a } s r = A.IndexRune cfg s r ∧
    A.HasPrefix { cfg with native := n, arm64 := a } s sub = A.HasPrefix cfg s sub ∧
    A.HasSuffix { cfg with native := n, arm64 := a } s sub = A.HasSuffix cfg s sub := by
  simp only [A.Index_eq, A.IndexRune_eq, A.HasPrefix_eq, A.HasSuffix_eq, and_self]

theorem search_backend_free (cfg : A.Cfg) (n a : Bool) (s sub : Bytes) :
    A.LastIndex { cfg with native := n, arm64 := a } s sub = A.LastIndex cfg s sub ∧
    A.Count { cfg with native := n, arm64 := a } s sub = A.Count cfg s sub ∧
    A.Cut { cfg with native := n, arm64 := a } s sub = A.Cut cfg s sub ∧
    A.IndexAny { cfg with native := n, arm64 := a } s sub = A.IndexAny cfg s sub ∧
    A.LastIndexAny { cfg with native := n, arm64 := a } s sub = A.LastIndexAny cfg s sub := by
  simp only [A.LastIndex_eq, A.Count_eq, A.Cut_eq, A.IndexAny_eq, A.LastIndexAny_eq, and_self]

example : genIndexByte [0x78, 0x4B, 0x6B] 0x6B = 1 ∧ genCount [0x78, 0x4B, 0x6B] 0x6B = 2 := by decide +kernel
end C14
