import SC.Proofs.KernGen
import SC.Proofs.RIndex
import SC.Proofs.RSuffix
import SC.Proofs.RIndexAny6
import SC.Proofs.KernBridge
import SC.Properties.C13
/-!
# C14 — results do not depend on the CPU features or backend the build selects

The algorithm model calls the byte kernels through their scalar definitions
(`S.kernIndexByte`, `S.kernCount`, `S.indexNonASCII`).  Each backend is shown equal to those
definitions: the portable Go implementations and the no-POPCNT fall-back here (for every input),
the SSE/AVX2 assembly paths through the block model of C13.  The real binaries are additionally
built and run in five configurations (default, `GODEBUG=cpu.avx2=off`, `cpu.popcnt=off`,
`GOAMD64=v3`, `GOARCH=386` = portable file set) on the same ops and compared with the model.
-/
namespace C14
open Utf8 Kern

theorem generic_indexByte (s : Bytes) (c : UInt8) : genIndexByte s c = S.kernIndexByte s c := genIndexByte_eq s c
theorem generic_count (s : Bytes) (c : UInt8) : genCount s c = S.kernCount s c := genCount_eq s c
theorem generic_indexNonASCII (s : Bytes) : genIndexNonASCII s 0 = S.indexNonASCII s := genIndexNonASCII_eq s 0

/-- functions that never consult the backend switches -/
theorem compare_backend_free (cfg : A.Cfg) (n a : Bool) (s t : Bytes) :
    A.Compare { cfg with native := n, arm64 := a } s t = A.Compare cfg s t := rfl

/-- the `NativeIndex` / portable branches of `indexRuneCase` and `Index`, and the two `Cutover` formulas,
    give the same results: every configuration refines the same specification -/
theorem index_backend_free (cfg : A.Cfg) (n a : Bool) (s sub : Bytes) (r : Int) :
    A.Index { cfg with native := n, arm64 := a } s sub = A.Index cfg s sub ∧
    A.IndexRune { cfg with native := n, arm64 := a } s r = A.IndexRune cfg s r ∧
    A.HasPrefix { cfg with native := n, arm64 := a } s sub = A.HasPrefix cfg s sub ∧
    A.HasSuffix { cfg with native := n, arm64 := a } s sub = A.HasSuffix cfg s sub := by
  simp only [A.Index_eq, A.IndexRune_eq, A.HasPrefix_eq, A.HasSuffix_eq, and_self]

theorem search_backend_free (cfg : A.Cfg) (n a : Bool) (s sub : Bytes) :
    A.LastIndex { cfg with native := n, arm64 := a } s sub = A.LastIndex cfg s sub ∧
    A.Count { cfg with native := n, arm64 := a } s sub = A.Count cfg s sub ∧
    A.Cut { cfg with native := n, arm64 := a } s sub = A.Cut cfg s sub ∧
    A.IndexAny { cfg with native := n, arm64 := a } s sub = A.IndexAny cfg s sub ∧
    A.LastIndexAny { cfg with native := n, arm64 := a } s sub = A.LastIndexAny cfg s sub := by
  simp only [A.LastIndex_eq, A.Count_eq, A.Cut_eq, A.IndexAny_eq, A.LastIndexAny_eq, and_self]

/-- **all backends compute the same function of the argument.**  When the memory holds the byte string `s`, the SSE and
    the AVX2 block loops of the search kernels (any of the three bodies, geometry extracted from the source), the `len < 16`
    path, the portable Go loop, and the scalar definition the algorithm model calls all return the same index; the SSE and
    AVX2 counting loops, the small counting path, the portable Go count and the no-POPCNT fall-back all return the same count. -/
theorem backends_agree (s : Bytes) (c : UInt8) (mem : Mem) (base : Nat) (h : Holds mem base s) :
    (∀ P, (P = C13.sse16 ∨ P = C13.avx32) → P.width ≤ s.length →
        (idxLoop P (S.byteEqFold c) mem base s.length (s.length + 1) 0).1 = S.kernIndexByte s c) ∧
    (s.length < 16 → (small (S.byteEqFold c) mem base s.length).1 = S.kernIndexByte s c) ∧
    genIndexByte s c = S.kernIndexByte s c ∧
    (∀ P, (P = C13.sse16 ∨ P = C13.avx64) → P.width ≤ s.length →
        (cntLoop P (S.byteEqFold c) mem base s.length (s.length + 1) 0 0).1 = S.kernCount s c) ∧
    (s.length < 16 → (cntSmall (S.byteEqFold c) mem base s.length).1 = S.kernCount s c) ∧
    genCount s c = S.kernCount s c := by
  have hi := specIndex_list (S.byteEqFold c) mem base s h
  have hc := specCount_list (S.byteEqFold c) mem base s h
  refine ⟨?_, ?_, genIndexByte_eq s c, ?_, ?_, genCount_eq s c⟩
  · intro P hP hw
    rw [(C13.search_loops P hP _ mem base s.length hw).1, hi]; rfl
  · intro hl
    rw [C13.small_is_scalar _ mem base s.length hl, hi]; rfl
  · intro P hP hw
    rw [(C13.count_loops P hP _ mem base s.length hw).1, hc]; rfl
  · intro hl
    rw [(C13.count_small _ mem base s.length hl).1, hc]; rfl

/-- the same for the non-ASCII scan -/
theorem backends_agree_nonascii (s : Bytes) (mem : Mem) (base : Nat) (h : Holds mem base s) :
    (∀ P, (P = C13.sse16 ∨ P = C13.avx32) → P.width ≤ s.length →
        (idxLoop P (fun b => decide (b ≥ 0x80)) mem base s.length (s.length + 1) 0).1 = S.indexNonASCII s) ∧
    (s.length < 16 → (small (fun b => decide (b ≥ 0x80)) mem base s.length).1 = S.indexNonASCII s) ∧
    genIndexNonASCII s 0 = S.indexNonASCII s := by
  have hi := specIndex_list (fun b => decide (b ≥ 0x80)) mem base s h
  refine ⟨?_, ?_, genIndexNonASCII_eq s 0⟩
  · intro P hP hw
    rw [(C13.search_loops P hP _ mem base s.length hw).1, hi]; rfl
  · intro hl
    rw [C13.small_is_scalar _ mem base s.length hl, hi]; rfl

/-- **the assembly entry points do not depend on the CPU features.**  With the byte string `s` in memory and its address,
    length and the needle in the caller's frame, the instruction-level model of `·IndexByte`, `·Count` and
    `·IndexByteNonASCII` (regenerated wrapper + body, `C13.kernel_entries`) stores the list-level scalar definition the
    algorithm model calls — **whatever the AVX2 flag** (there is no hypothesis on `st.avx2`), whatever the other registers,
    flags and vector lanes hold; without POPCNT the counting wrappers tail-call `countGeneric[String]`, whose model
    `genCount` is the same function (`generic_count`). -/
theorem assembly_backends (s : Bytes) (c : UInt8) (mem : Mem) (base : Nat) (h : Holds mem base s) (st : Asm.St) (f : Nat)
    (hb : base + s.length + 128 < 2 ^ 62) (hc : st.args "c" % 256 = c.toNat)
    (h1 : st.args "b_base" = base) (h2 : st.args "b_len" = s.length)
    (hmem : st.mem = mem) (hout : st.out = none) (hl : st.loads = []) (hf : 15 * (s.length + 1) + 80 ≤ f) :
    (Asm.call Gen.Asm.wrap_IndexByte f st).out = some (S.kernIndexByte s c) ∧
    (st.popcnt = true → (Asm.call Gen.Asm.wrap_Count f st).out = some ((S.kernCount s c : Nat) : Int)) ∧
    (st.popcnt = false →
      (Asm.run Gen.Asm.wrap_Count f (Asm.block Gen.Asm.wrap_Count "entry") st).tail = some "countGeneric" ∧
      genCount s c = S.kernCount s c) ∧
    (Asm.call Gen.Asm.wrap_IndexByteNonASCII f st).out = some (S.indexNonASCII s) := by
  have hk := C13.kernel_entries mem base s.length c st f hb hc hmem hout hl hf
  have hi := specIndex_list (S.byteEqFold c) mem base s h
  have hn := specIndex_list (fun b => decide (b ≥ 0x80)) mem base s h
  have hcn := specCount_list (S.byteEqFold c) mem base s h
  obtain ⟨hA, _, hC⟩ := hk
  obtain ⟨hA1, hA2, hA3⟩ := hA h1 h2
  refine ⟨?_, ?_, ?_, ?_⟩
  · rw [hA1.1, hi]; rfl
  · intro hp; rw [(hA2 hp).1, hcn]; rfl
  · intro hp; exact ⟨(hC hp).1, genCount_eq s c⟩
  · rw [hA3.1, hn]; rfl

example : genIndexByte [0x78, 0x4B, 0x6B] 0x6B = 1 ∧ genCount [0x78, 0x4B, 0x6B] 0x6B = 2 := by decide +kernel
end C14
