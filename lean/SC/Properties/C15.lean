import SC.Properties.C02
import SC.Properties.C01
import SC.Properties.C09
import SC.Properties.C10
import SC.Properties.C08
import SC.Properties.C12
import SC.Properties.C11
/-!
# C15 — ill-formed UTF-8: every bad byte is one U+FFFD, in every function alike

The specification `S` defines every function through `dec` (Go's forward segmentation, each
ill-formed byte one U+FFFD of width 1) with **no validity hypothesis**, and the real code is compared
with it on ill-formed input families on every run.  The theorems of C01/C02/C04 quoted here are
stated for arbitrary bytes.
-/
namespace C15
open Utf8 Fold

/-- a byte that starts no well-formed sequence decodes to (U+FFFD, 1), whatever follows -/
theorem bad_start (b : UInt8) (rest : Bytes) (h : 0xF5 ≤ b ∨ (0x80 ≤ b ∧ b < 0xC2)) :
    decodeRune (b :: rest) = (0xFFFD, 1) := by
  have h1 : ¬ b < 0x80 := by
    rcases h with h | h
    · intro h'; exact absurd (UInt8.lt_of_lt_of_le h' (by decide : (0x80 : UInt8) ≤ 0xF5)) (UInt8.not_lt.mpr h)
    · exact UInt8.not_lt.mpr h.1
  unfold decodeRune
  rcases h with h | h
  · have h2 : ¬ b < 0xC2 := fun h' => absurd (UInt8.lt_of_lt_of_le h' (by decide : (0xC2 : UInt8) ≤ 0xF5)) (UInt8.not_lt.mpr h)
    have h3 : ¬ b < 0xE0 := fun h' => absurd (UInt8.lt_of_lt_of_le h' (by decide : (0xE0 : UInt8) ≤ 0xF5)) (UInt8.not_lt.mpr h)
    have h4 : ¬ b < 0xF0 := fun h' => absurd (UInt8.lt_of_lt_of_le h' (by decide : (0xF0 : UInt8) ≤ 0xF5)) (UInt8.not_lt.mpr h)
    have h5 : ¬ b < 0xF5 := UInt8.not_lt.mpr h
    simp [h1, h2, h3, h4, h5, runeError]
  · simp [h1, h.2, runeError]

/-- Compare / EqualFold: the refinement holds with no validity hypothesis -/
theorem compare_any_bytes (cfg : A.Cfg) (s t : Bytes) : A.Compare cfg s t = S.compare s t := C04.compare_refines cfg s t

/-- Index, Contains, IndexRune, the prefix/suffix family: the refinement theorems carry no validity
    hypothesis — every function reads its arguments through `dec`, one U+FFFD of width 1 per ill-formed byte -/
theorem search_any_bytes (cfg : A.Cfg) (s t : Bytes) (r : Int) :
    A.Index cfg s t = S.index s t ∧ A.Contains cfg s t = S.contains s t ∧ A.IndexRune cfg s r = S.indexRune s r ∧
    A.HasPrefix cfg s t = S.hasPrefix s t ∧ A.HasSuffix cfg s t = S.hasSuffix s t ∧
    A.TrimPrefix cfg s t = S.trimPrefix s t ∧ A.TrimSuffix cfg s t = S.trimSuffix s t ∧
    A.CutPrefix cfg s t = S.cutPrefix s t ∧ A.CutSuffix cfg s t = S.cutSuffix s t :=
  ⟨C01.index_refines cfg s t, C01.contains_refines cfg s t, C10.indexRune_refines cfg s r, C09.hasPrefix_refines cfg s t,
   C09.hasSuffix_refines cfg s t, C09.trimPrefix_refines cfg s t, C09.trimSuffix_refines cfg s t,
   C09.cutPrefix_refines cfg s t, C09.cutSuffix_refines cfg s t⟩

theorem search_any_bytes2 (cfg : A.Cfg) (s t : Bytes) :
    A.LastIndex cfg s t = S.lastIndex s t ∧ A.Count cfg s t = (S.count s t : Nat) ∧ A.Cut cfg s t = some (S.cut s t) :=
  ⟨C08.lastIndex_refines cfg s t, C12.count_refines cfg s t, C12.cut_refines cfg s t⟩

theorem search_any_bytes3 (cfg : A.Cfg) (s t : Bytes) :
    A.IndexAny cfg s t = S.indexAny s t ∧ A.LastIndexAny cfg s t = S.lastIndexAny s t ∧
    A.ContainsAny cfg s t = S.containsAny s t :=
  ⟨A.IndexAny_eq cfg s t, A.LastIndexAny_eq cfg s t, A.ContainsAny_eq cfg s t⟩

/-- the examples of the property statement, on the specification and on the algorithm model -/
example : S.index [0x61, 0xFF] [0xEF, 0xBF, 0xBD] = 1 ∧ A.Index {} [0x61, 0xFF] [0xEF, 0xBF, 0xBD] = 1 ∧
    A.Index {pkg := .byt} [0x61, 0xFF] [0xEF, 0xBF, 0xBD] = 1 := by decide +kernel
example : S.compare [0xFF] [0xEF, 0xBF, 0xBD] = 0 ∧ A.Compare {} [0xFF] [0xEF, 0xBF, 0xBD] = 0 := by decide +kernel
example : S.hasPrefix [0xFF] [0xEF, 0xBF, 0xBD] = true ∧ A.HasPrefix {} [0xFF] [0xEF, 0xBF, 0xBD] = true ∧
    S.lastIndex [0xFF] [0xFE] = 0 ∧ A.LastIndex {} [0xFF] [0xFE] = 0 ∧ S.count [0xFF, 0xFE] [0xFF] = 2 ∧
    A.Count {} [0xFF, 0xFE] [0xFF] = 2 := by decide +kernel
end C15
