import SC.Proofs.SpecIndex
import SC.Proofs.SpecLast
import SC.Proofs.RLastIndex
/-!
# C08 — LastIndex returns exactly the rightmost case-insensitive match
-/
namespace C08
open Utf8 Spec

theorem lastIndex_is_rightmost (s sub : Bytes) : IsLastIndex S.fold s sub (S.lastIndex s sub) := S_lastIndex_isLastIndex s sub

/-- empty needle: `len(s)` -/
theorem lastIndex_empty (s : Bytes) : S.lastIndex s [] = s.length := by
  rcases lastIndex_is_rightmost s [] with ⟨_, hn⟩ | ⟨i, hr, hb, _, hmax⟩
  · exact absurd (by simp [Match, fdec, dec_nil]) (hn 0 (isBoundary_zero s))
  · rw [hr]
    have hle := isBoundary_le s i hb
    rcases Nat.lt_or_ge i s.length with h | h
    · exact absurd (by simp [Match, fdec, dec_nil]) (hmax s.length ⟨(dec s).length, Nat.le_refl _, offAt_length s⟩ h)
    · congr 1; omega

/-- LastIndex finds a match iff Index does, and then Index ≤ LastIndex; every position LastIndex
    reports is a position at which Index's match predicate holds -/
theorem index_le_lastIndex (s sub : Bytes) :
    (0 ≤ S.index s sub ↔ 0 ≤ S.lastIndex s sub) ∧ (0 ≤ S.index s sub → S.index s sub ≤ S.lastIndex s sub) := by
  have h := index_lastIndex (S.fruns s) (S.fruns sub)
  unfold S.index S.lastIndex S.indexK S.lastIndexK
  cases hi : findSub (S.fruns s) (S.fruns sub) with
  | none =>
    cases hj : findSubLast (S.fruns s) (S.fruns sub) with
    | none => simp
    | some j => rw [hi, hj] at h; simp at h
  | some i =>
    cases hj : findSubLast (S.fruns s) (S.fruns sub) with
    | none => rw [hi, hj] at h; simp at h
    | some j =>
      have hij := h.2 i j hi hj
      have hjl := ((findSubLast_some_iff _ _ _).mp hj).2.1
      simp only [S.fruns, fdec_length] at hjl
      have := offAt_le_of_le s i j hij hjl
      simp; omega

/-! ### Refinement: `A.LastIndex` equals the specification

For **every** pair of byte strings, both packages: the dispatch (empty needle, one ASCII byte →
`LastIndexByte`, one code point → `lastIndexRune`, the two length pre-checks), `lastIndexRune`
(backward rune loop with the ASCII shortcut and `DecodeLastRune`, FoldMap members / upper-lower pair,
strcase's backward byte comparison for caseless runes), and `indexRabinKarpRevUnicode` (backward hash,
backward first window, backward rolling window verified by `hasSuffixUnicode`). -/

theorem lastIndex_refines (cfg : A.Cfg) (s sub : Bytes) : A.LastIndex cfg s sub = S.lastIndex s sub := A.LastIndex_eq cfg s sub

theorem rabinKarpRev_rightmost (cfg : A.Cfg) (s sub : Bytes) (h : sub ≠ []) :
    IsLastIndex Fold.caseFold s sub (A.indexRabinKarpRevUnicode cfg s sub) := A.indexRabinKarpRevUnicode_isLastIndex cfg s sub h

/-- backward decoding agrees with forward segmentation on arbitrary bytes (what every backward loop relies on) -/
theorem backward_segmentation (s : Bytes) : A.decRev (s.length + 1) s = (dec s).reverse := A.decRev_eq _ s (by omega)

/-- `LastIndex ≥ Index` whenever either finds something, for the algorithm model -/
theorem model_index_le_lastIndex (cfg : A.Cfg) (s sub : Bytes) :
    (0 ≤ A.Index cfg s sub ↔ 0 ≤ A.LastIndex cfg s sub) ∧ (0 ≤ A.Index cfg s sub → A.Index cfg s sub ≤ A.LastIndex cfg s sub) := by
  rw [A.Index_eq, A.LastIndex_eq]; exact index_le_lastIndex s sub

example : S.lastIndex [0x6B, 0x4B, 0xE2, 0x84, 0xAA, 0x78] [0x4B] = 2 := by decide +kernel
end C08
