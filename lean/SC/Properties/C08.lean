import SC.Proofs.SpecIndex
import SC.Proofs.SpecLast
/-!
# C08 — LastIndex returns exactly the rightmost case-insensitive match
-/
namespace C08
open Utf8 Spec

theorem lastIndex_is_rightmost (s sub : Bytes) : IsLastIndex S.fold s sub (S.lastIndex s sub) := S_lastIndex_isLastIndex s sub

/-- empty needle: `len(s)` -/
theorem lastIndex_empty (s : Bytes) : S.lastIndex s [] = s.length := by
  rcases lastIndex_is_rightmost s [] with ⟨_, hn⟩ | ⟨i, hr, hb, _, hmax⟩
  · exact absurd (by simp [Match, fdec, dec_nil]) (hn 0 (isBoundary_zero s))
  · rw [hr]
    have hle := isBoundary_le s i hb
    rcases Nat.lt_or_ge i s.length with h | h
    · exact absurd (by simp [Match, fdec, dec_nil]) (hmax s.length ⟨(dec s).length, Nat.le_refl _, offAt_length s⟩ h)
    · congr 1; omega

/-- LastIndex finds a match iff Index does, and then Index ≤ LastIndex; every position LastIndex
    reports is a position at which Index's match predicate holds -/
theorem index_le_lastIndex (s sub : Bytes) :
    (0 ≤ S.index s sub ↔ 0 ≤ S.lastIndex s sub) ∧ (0 ≤ S.index s sub → S.index s sub ≤ S.lastIndex s sub) := by
  have h := index_lastIndex (S.fruns s) (S.fruns sub)
  unfold S.index S.lastIndex S.indexK S.lastIndexK
  cases hi : findSub (S.fruns s) (S.fruns sub) with
  | none =>
    cases hj : findSubLast (S.fruns s) (S.fruns sub) with
    | none => simp
    | some j => rw [hi, hj] at h; simp at h
  | some i =>
    cases hj : findSubLast (S.fruns s) (S.fruns sub) with
    | none => rw [hi, hj] at h; simp at h
    | some j =>
      have hij := h.2 i j hi hj
      have hjl := ((findSubLast_some_iff _ _ _).mp hj).2.1
      simp only [S.fruns, fdec_length] at hjl
      have := offAt_le_of_le s i j hij hjl
      simp; omega

example : S.lastIndex [0x6B, 0x4B, 0xE2, 0x84, 0xAA, 0x78] [0x4B] = 2 := by decide +kernel
end C08
