import SC.Proofs.SpecIndex
/-!
# C08 — LastIndex returns exactly the rightmost case-insensitive match
-/
namespace C08
open Utf8 Spec

/-- `res` is the rightmost-match byte offset of `sub` in `s`, or −1 -/
def IsLastIndex (s sub : Bytes) (res : Int) : Prop :=
  (res = -1 ∧ ∀ i, IsBoundary s i → ¬ Match S.fold (s.drop i) sub) ∨
  (∃ i : Nat, res = (i : Int) ∧ IsBoundary s i ∧ Match S.fold (s.drop i) sub ∧
      ∀ j, IsBoundary s j → i < j → ¬ Match S.fold (s.drop j) sub)

theorem lastIndex_is_rightmost (s sub : Bytes) : IsLastIndex s sub (S.lastIndex s sub) := by
  unfold S.lastIndex S.lastIndexK S.fruns
  cases h : findSubLast (fdec S.fold s) (fdec S.fold sub) with
  | none =>
    left
    refine ⟨rfl, ?_⟩
    rintro i ⟨k, hk, rfl⟩ hm
    rw [findSubLast_none_iff] at h
    apply h k (by rw [fdec_length]; exact hk)
    unfold Match at hm
    rwa [fdec_drop_offAt] at hm
  | some k =>
    right
    rw [findSubLast_some_iff] at h
    obtain ⟨hp, hk, hmax⟩ := h
    rw [fdec_length] at hk
    refine ⟨offAt s k, rfl, ⟨k, hk, rfl⟩, ?_, ?_⟩
    · unfold Match; rwa [fdec_drop_offAt]
    · rintro j ⟨k', hk', rfl⟩ hlt hm
      have hkk : k < k' := by
        rcases Nat.lt_or_ge k k' with h | h
        · exact h
        · have := offAt_le_of_le s k' k h hk; omega
      apply hmax k' hkk (by rw [fdec_length]; exact hk')
      unfold Match at hm
      rwa [fdec_drop_offAt] at hm

/-- empty needle: `len(s)` -/
theorem lastIndex_empty (s : Bytes) : S.lastIndex s [] = s.length := by
  rcases lastIndex_is_rightmost s [] with ⟨_, hn⟩ | ⟨i, hr, hb, _, hmax⟩
  · exact absurd (by simp [Match, fdec, dec_nil]) (hn 0 (isBoundary_zero s))
  · rw [hr]
    have hle := isBoundary_le s i hb
    rcases Nat.lt_or_ge i s.length with h | h
    · exact absurd (by simp [Match, fdec, dec_nil]) (hmax s.length ⟨(dec s).length, Nat.le_refl _, offAt_length s⟩ h)
    · congr 1; omega

/-- LastIndex finds a match iff Index does, and then Index ≤ LastIndex; every position LastIndex
    reports is a position at which Index's match predicate holds -/
theorem index_le_lastIndex (s sub : Bytes) :
    (0 ≤ S.index s sub ↔ 0 ≤ S.lastIndex s sub) ∧ (0 ≤ S.index s sub → S.index s sub ≤ S.lastIndex s sub) := by
  have h := index_lastIndex (S.fruns s) (S.fruns sub)
  unfold S.index S.lastIndex S.indexK S.lastIndexK
  cases hi : findSub (S.fruns s) (S.fruns sub) with
  | none =>
    cases hj : findSubLast (S.fruns s) (S.fruns sub) with
    | none => simp
    | some j => rw [hi, hj] at h; simp at h
  | some i =>
    cases hj : findSubLast (S.fruns s) (S.fruns sub) with
    | none => rw [hi, hj] at h; simp at h
    | some j =>
      have hij := h.2 i j hi hj
      have hjl := ((findSubLast_some_iff _ _ _).mp hj).2.1
      simp only [S.fruns, fdec_length] at hjl
      have := offAt_le_of_le s i j hij hjl
      simp; omega

example : S.lastIndex [0x6B, 0x4B, 0xE2, 0x84, 0xAA, 0x78] [0x4B] = 2 := by decide +kernel
end C08
