import SC.Proofs.SpecIndex
import SC.Proofs.EmbedBytes
import SC.Proofs.Identities
import SC.Properties.C04
/-!
# C16 — results are invariant under changing the case of either argument

`Recase s s'`: the two strings have the same number of code points and corresponding code points
are fold-equal (members of one simple-folding orbit, by C03).  Every specification function is a
function of the folded rune sequence (and, for byte offsets, of the widths of the segments before
the reported position), so re-casing changes no boolean, no sign, no count and no code-point index.
-/
namespace C16
open Utf8 Spec

def Recase (s s' : Bytes) : Prop :=
  (dec s).length = (dec s').length ∧ ∀ p ∈ (dec s).zip (dec s'), S.fold p.1.1 = S.fold p.2.1

theorem map_eq_of_zip {α β : Type} (f : α → β) : ∀ (a b : List α), a.length = b.length →
    (∀ p ∈ a.zip b, f p.1 = f p.2) → a.map f = b.map f
  | [], [], _, _ => rfl
  | [], _ :: _, h, _ => by simp at h
  | _ :: _, [], h, _ => by simp at h
  | x :: a, y :: b, h, hp => by
    simp only [List.map_cons, List.cons.injEq]
    exact ⟨hp (x, y) (by simp), map_eq_of_zip f a b (by simpa using h)
      (fun p hm => hp p (by simp [hm]))⟩

theorem recase_fruns (s s' : Bytes) (h : Recase s s') : S.fruns s = S.fruns s' :=
  map_eq_of_zip (fun p : Nat × Nat => S.fold p.1) (dec s) (dec s') h.1 h.2

theorem recase_nrunes (s s' : Bytes) (h : Recase s s') : S.nrunes s = S.nrunes s' := by
  have := congrArg List.length (recase_fruns s s' h)
  simpa [S.fruns, fdec, S.nrunes] using this

theorem containsAny_eq (s cs : Bytes) :
    S.containsAny s cs = ((S.fruns s).findIdx? (fun x => (S.fruns cs).contains x)).isSome := by
  unfold S.containsAny S.indexAny
  simp only []
  have key : ∀ o : Option Nat,
      (decide ((match o with | some k => ((offAt s k : Nat) : Int) | none => -1) ≥ 0)) = o.isSome := by
    intro o
    cases o with
    | none => rfl
    | some k => simp
  exact key _

variable (s s' t t' : Bytes) (hs : Recase s s') (ht : Recase t t')
include hs ht

/-- booleans, the sign of Compare and Count are unchanged -/
theorem invariant_scalars :
    S.compare s t = S.compare s' t' ∧ S.equalFold s t = S.equalFold s' t' ∧
    S.hasPrefix s t = S.hasPrefix s' t' ∧ S.hasSuffix s t = S.hasSuffix s' t' ∧
    S.contains s t = S.contains s' t' ∧ S.containsAny s t = S.containsAny s' t' := by
  have e1 := recase_fruns s s' hs
  have e2 := recase_fruns t t' ht
  refine ⟨?_, ?_, ?_, ?_, ?_, ?_⟩
  · simp [S.compare, e1, e2]
  · simp [S.equalFold, e1, e2]
  · simp only [S.hasPrefix, S.prefixLen, e1, e2]; split <;> rfl
  · simp only [S.hasSuffix, S.suffixStart, e1, e2]; split <;> rfl
  · simp [S.contains, S.indexK, e1, e2]
  · rw [containsAny_eq, containsAny_eq, e1, e2]

/-- the code-point index (and code-point length) of the reported match is unchanged; the byte offset
    is the sum of the widths of the segments before it -/
theorem invariant_rune_index :
    S.indexK s t = S.indexK s' t' ∧ S.lastIndexK s t = S.lastIndexK s' t' ∧ S.nrunes t = S.nrunes t' ∧
    (∀ k, S.indexK s t = some k → S.index s t = offAt s k ∧ S.index s' t' = offAt s' k) := by
  have e1 := recase_fruns s s' hs
  have e2 := recase_fruns t t' ht
  refine ⟨by simp [S.indexK, e1, e2], by simp [S.lastIndexK, e1, e2], recase_nrunes t t' ht, ?_⟩
  intro k hk
  have hk' : S.indexK s' t' = some k := by rw [← hk]; simp [S.indexK, e1, e2]
  simp [S.index, hk, hk']

theorem invariant_count (fuel : Nat) :
    Spec.countFrom fuel (S.fruns s) (S.fruns t) = Spec.countFrom fuel (S.fruns s') (S.fruns t') := by
  rw [recase_fruns s s' hs, recase_fruns t t' ht]

/-- Count itself is unchanged (the byte lengths, hence the fuel of the definition, may differ) -/
theorem invariant_count' : S.count s t = S.count s' t' := by
  have e1 := recase_fruns s s' hs
  have e2 := recase_fruns t t' ht
  by_cases h0 : t = []
  · have h0' : t' = [] := by
      have := recase_nrunes t t' ht
      subst h0
      simp only [S.nrunes, dec_nil, List.length_nil] at this
      cases t' with
      | nil => rfl
      | cons b x => rw [dec_cons] at this; simp at this
    subst h0; subst h0'
    simp [S.count, recase_nrunes s s' hs]
  · have h0' : t' ≠ [] := by
      intro h; subst h
      have := recase_nrunes t [] ht
      simp only [S.nrunes, dec_nil, List.length_nil] at this
      cases t with
      | nil => exact h0 rfl
      | cons b x => rw [dec_cons] at this; simp at this
    rw [A.count_eq_cnt s t h0, A.count_eq_cnt s' t' h0', e1, e2]

/-- trims and cuts: found-ness and the code-point position of the cut are unchanged; the byte offset is `offAt` of
    that code-point position in the respective string -/
theorem invariant_trims :
    (S.prefixLen s t).isSome = (S.prefixLen s' t').isSome ∧
    (∀ j, S.prefixLen s t = some j → j = offAt s (S.nrunes t) ∧ S.prefixLen s' t' = some (offAt s' (S.nrunes t))) ∧
    (S.suffixStart s t).isSome = (S.suffixStart s' t').isSome ∧
    (∀ i, S.suffixStart s t = some i → i = offAt s (S.nrunes s - S.nrunes t) ∧
        S.suffixStart s' t' = some (offAt s' (S.nrunes s - S.nrunes t))) := by
  have e1 := recase_fruns s s' hs
  have e2 := recase_fruns t t' ht
  have n1 := recase_nrunes s s' hs
  have n2 := recase_nrunes t t' ht
  have l1 : (S.fruns s').length = S.nrunes s := by rw [← e1]; exact fdec_length _ _
  have l2 : (S.fruns t').length = S.nrunes t := by rw [← e2]; exact fdec_length _ _
  refine ⟨?_, ?_, ?_, ?_⟩
  · simp only [S.prefixLen, e1, e2]; split <;> rfl
  · intro j hj
    unfold S.prefixLen at hj ⊢
    rw [e1, e2] at hj
    by_cases hp : (S.fruns t').isPrefixOf (S.fruns s') = true
    · rw [if_pos hp] at hj ⊢
      exact ⟨(Option.some.inj hj).symm, by rw [n2]⟩
    · rw [if_neg hp] at hj; cases hj
  · simp only [S.suffixStart, e1, e2]; split <;> rfl
  · intro i hi
    unfold S.suffixStart at hi ⊢
    simp only [e1, e2, l1, l2] at hi ⊢
    split at hi
    · rename_i hc
      rw [if_pos hc]
      exact ⟨(Option.some.inj hi).symm, rfl⟩
    · cases hi

/-- set searches: the code-point index of the reported position is unchanged -/
theorem invariant_any :
    (∃ ko : Option Nat, S.indexAny s t = (match ko with | some k => (offAt s k : Int) | none => -1) ∧
        S.indexAny s' t' = (match ko with | some k => (offAt s' k : Int) | none => -1)) ∧
    (∃ ko : Option Nat, S.lastIndexAny s t = (match ko with | some k => (offAt s k : Int) | none => -1) ∧
        S.lastIndexAny s' t' = (match ko with | some k => (offAt s' k : Int) | none => -1)) := by
  have e1 := recase_fruns s s' hs
  have e2 := recase_fruns t t' ht
  constructor
  · refine ⟨(S.fruns s).findIdx? (fun x => (S.fruns t).contains x), ?_, ?_⟩
    · unfold S.indexAny; simp only []; rfl
    · unfold S.indexAny; simp only [e1, e2]; rfl
  · have key : ∀ (z : Bytes) (n : Nat) (o : Option Nat),
        (match o with | some k => ((offAt z (n - 1 - k) : Nat) : Int) | none => -1) =
        (match o.map (fun k => n - 1 - k) with | some k => ((offAt z k : Nat) : Int) | none => -1) := by
      intro z n o; cases o <;> rfl
    refine ⟨((S.fruns s).reverse.findIdx? (fun x => (S.fruns t).contains x)).map (fun k => (S.fruns s).length - 1 - k), ?_, ?_⟩
    · unfold S.lastIndexAny; simp only []
      exact key _ _ _
    · unfold S.lastIndexAny; simp only [e1, e2]
      exact key _ _ _

/-- the same invariance for the algorithm model (both packages, every backend setting) -/
theorem model_invariant (cfg : A.Cfg) :
    A.Compare cfg s t = A.Compare cfg s' t' ∧ A.EqualFold cfg s t = A.EqualFold cfg s' t' ∧
    A.HasPrefix cfg s t = A.HasPrefix cfg s' t' ∧ A.HasSuffix cfg s t = A.HasSuffix cfg s' t' ∧
    A.Contains cfg s t = A.Contains cfg s' t' ∧ A.ContainsAny cfg s t = A.ContainsAny cfg s' t' ∧
    A.Count cfg s t = A.Count cfg s' t' := by
  have h := invariant_scalars s s' t t' hs ht
  have hc := invariant_count' s s' t t' hs ht
  simp only [C04.compare_refines, A.EqualFold, A.HasPrefix_eq, A.HasSuffix_eq, A.Contains_eq, A.ContainsAny_eq, A.Count_eq]
  exact ⟨h.1, by rw [h.1], h.2.2.1, h.2.2.2.1, h.2.2.2.2.1, h.2.2.2.2.2, by rw [hc]⟩
end C16

namespace C16
open Utf8
example : Recase [0x4B, 0x73] [0xE2, 0x84, 0xAA, 0xC5, 0xBF] := by
  have h1 : dec [0x4B, 0x73] = [(0x4B, 1), (0x73, 1)] := by decide +kernel
  have h2 : dec [0xE2, 0x84, 0xAA, 0xC5, 0xBF] = [(0x212A, 3), (0x17F, 2)] := by decide +kernel
  unfold Recase; rw [h1, h2]
  refine ⟨rfl, ?_⟩
  intro p hp
  simp at hp
  rcases hp with rfl | rfl <;> decide +kernel
end C16
