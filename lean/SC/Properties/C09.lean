import SC.Proofs.SpecIndex
import SC.Proofs.RTrim
import SC.Proofs.RSuffix
/-!
# C09 — prefix/suffix tests and trims remove exactly the matched text, or nothing
-/
namespace C09
open Utf8 Spec

/-- HasPrefix ⇔ the folded runes of `p` are a prefix of those of `s` -/
theorem hasPrefix_iff (s p : Bytes) : S.hasPrefix s p = true ↔ S.fruns p <+: S.fruns s := by
  unfold S.hasPrefix S.prefixLen
  by_cases h : (S.fruns p).isPrefixOf (S.fruns s) = true
  · simp only [h, if_true, Option.isSome_some, true_iff]; exact (isPrefixOf_iff _ _).mp h
  · simp only [h, Bool.false_eq_true, if_false, Option.isSome_none, false_iff]
    exact fun hp => h ((isPrefixOf_iff _ _).mpr hp)

/-- when it matches, the removed text is `s[:j]` with `j` the decode boundary after as many code
    points as `p` has, `s[:j]` is fold-equal to `p`, and TrimPrefix/CutPrefix return exactly `s[j:]` -/
theorem trimPrefix_match (s p : Bytes) (h : S.hasPrefix s p = true) :
    let j := offAt s (S.nrunes p)
    IsBoundary s j ∧ S.fruns (s.take j) = S.fruns p ∧
    S.trimPrefix s p = (j, s.length - j) ∧ S.cutPrefix s p = ((j, s.length - j), true) := by
  have hp := (hasPrefix_iff s p).mp h
  have hlen : S.nrunes p ≤ (dec s).length := by
    have := hp.length_le; simpa [S.fruns, fdec, S.nrunes] using this
  intro j
  refine ⟨⟨_, hlen, rfl⟩, ?_, ?_, ?_⟩
  · show fdec S.fold (s.take (offAt s (S.nrunes p))) = _
    unfold fdec; rw [dec_take_offAt, List.map_take]
    have := List.prefix_iff_eq_take.mp hp
    simp only [S.fruns, fdec, List.length_map] at this
    exact this.symm
  · unfold S.trimPrefix S.prefixLen
    rw [if_pos ((isPrefixOf_iff _ _).mpr hp)]
  · unfold S.cutPrefix S.prefixLen
    rw [if_pos ((isPrefixOf_iff _ _).mpr hp)]

/-- otherwise `s` is returned unchanged, found = false -/
theorem trimPrefix_nomatch (s p : Bytes) (h : S.hasPrefix s p = false) :
    S.trimPrefix s p = (0, s.length) ∧ S.cutPrefix s p = ((0, s.length), false) := by
  unfold S.hasPrefix at h
  unfold S.trimPrefix S.cutPrefix
  cases hq : S.prefixLen s p with
  | none => exact ⟨rfl, rfl⟩
  | some j => rw [hq] at h; cases h

/-- an empty affix always matches and removes nothing -/
theorem empty_affix (s : Bytes) :
    S.hasPrefix s [] = true ∧ S.trimPrefix s [] = (0, s.length) ∧
    S.hasSuffix s [] = true ∧ S.trimSuffix s [] = (0, s.length) := by
  have e : S.fruns [] = [] := by simp [S.fruns, fdec, dec_nil]
  refine ⟨?_, ?_, ?_, ?_⟩
  · simp [S.hasPrefix, S.prefixLen, e]
  · simp [S.trimPrefix, S.prefixLen, e, S.nrunes, dec_nil, offAt_zero]
  · simp [S.hasSuffix, S.suffixStart, e]
  · simp only [S.trimSuffix, S.suffixStart, e, List.length_nil, Nat.sub_zero, Nat.zero_le, true_and]
    simp only [List.drop_length, beq_self_eq_true, if_true]
    rw [show (S.fruns s).length = (dec s).length from fdec_length _ _, offAt_length]

/-- an affix with more code points than `s` never matches -/
theorem longer_affix_never (s p : Bytes) (h : S.nrunes s < S.nrunes p) :
    S.hasPrefix s p = false ∧ S.hasSuffix s p = false := by
  have hl : (S.fruns s).length < (S.fruns p).length := by simpa [S.fruns, fdec, S.nrunes] using h
  constructor
  · cases hq : S.hasPrefix s p with
    | false => rfl
    | true => have := ((hasPrefix_iff s p).mp hq).length_le; omega
  · unfold S.hasSuffix S.suffixStart
    simp only []
    rw [if_neg (by intro hh; omega)]; rfl

/-- HasSuffix ⇔ the folded runes of `p` are a suffix of those of `s`; the cut is at the boundary
    `i` before the last `nrunes p` code points -/
theorem hasSuffix_iff (s p : Bytes) : S.hasSuffix s p = true ↔ S.fruns p <:+ S.fruns s := by
  unfold S.hasSuffix S.suffixStart
  simp only []
  by_cases hl : (S.fruns p).length ≤ (S.fruns s).length
  · by_cases he : ((S.fruns s).drop ((S.fruns s).length - (S.fruns p).length) == S.fruns p) = true
    · rw [if_pos ⟨hl, he⟩]
      simp only [Option.isSome_some, true_iff]
      exact ⟨_, by rw [← beq_iff_eq.mp he]; exact List.take_append_drop _ _⟩
    · rw [if_neg (fun hh => he hh.2)]
      simp only [Option.isSome_none, Bool.false_eq_true, false_iff]
      rintro ⟨a, ha⟩
      apply he
      rw [beq_iff_eq, ← ha]
      simp
  · rw [if_neg (fun hh => hl hh.1)]
    simp only [Option.isSome_none, Bool.false_eq_true, false_iff]
    intro hs; exact hl hs.length_le

/-! ### Refinement: the transliterated algorithms equal the specification

`A.hasPrefixUnicode` (ASCII loop, rune loop, length pre-check with `containsKelvin` → `indexRuneCase`),
`A.TrimPrefix` (its own loops), `A.hasSuffixUnicode` (ASCII loop from the end, rune loop with
`DecodeLastRune`), and the wrappers — for **all** byte strings and both packages.  The theorems above
therefore hold of the algorithm model too. -/

theorem hasPrefix_refines (cfg : A.Cfg) (s p : Bytes) : A.HasPrefix cfg s p = S.hasPrefix s p := A.HasPrefix_eq cfg s p
theorem trimPrefix_refines (cfg : A.Cfg) (s p : Bytes) : A.TrimPrefix cfg s p = S.trimPrefix s p := A.TrimPrefix_eq cfg s p
theorem cutPrefix_refines (cfg : A.Cfg) (s p : Bytes) : A.CutPrefix cfg s p = S.cutPrefix s p := A.CutPrefix_eq cfg s p
theorem hasSuffix_refines (cfg : A.Cfg) (s p : Bytes) : A.HasSuffix cfg s p = S.hasSuffix s p := A.HasSuffix_eq cfg s p
theorem trimSuffix_refines (cfg : A.Cfg) (s p : Bytes) : A.TrimSuffix cfg s p = S.trimSuffix s p := A.TrimSuffix_eq cfg s p
theorem cutSuffix_refines (cfg : A.Cfg) (s p : Bytes) : A.CutSuffix cfg s p = S.cutSuffix s p := A.CutSuffix_eq cfg s p

/-- the `exhausted` flag of the verifier (used by the Index strategies to stop early) is sound -/
theorem hasPrefixUnicode_exhausted (cfg : A.Cfg) (s p : Bytes)
    (h1 : (A.hasPrefixUnicode cfg s p).1 = false) (h2 : (A.hasPrefixUnicode cfg s p).2 = true) :
    ∀ k, ¬ S.fruns p <+: (S.fruns s).drop k := (A.hasPrefixUnicode_contract cfg s p).2 h1 h2

example : S.trimPrefix [0xE2, 0x84, 0xAA, 0x62] [0x6B] = (3, 1) ∧ S.trimPrefix [0x61, 0x62, 0x63] [0x61, 0x62, 0x63, 0x64] = (0, 3) := by decide +kernel
end C09
