import SC.Properties.C04
import SC.Proofs.Utf8Thy
import SC.Proofs.RIndex
import SC.Proofs.RCountByte
import SC.Proofs.RLastIndex
import SC.Proofs.RIndexAny6
import SC.Proofs.RByteLevel
import SC.Proofs.RTrim
import SC.Proofs.RSuffix
import SC.Proofs.SrcStatic
/-!
# C06 — total and memory-safe on arbitrary bytes

In the algorithm model every computed index/slice position is bounds-tested (a miss yields the
sentinel `A.fault`, rendered `PANIC`) and every loop runs on fuel (running out yields `A.nofuel`,
rendered `HANG`); a real panic or hang is likewise rendered `PANIC`/`HANG` by the harness.  So
"the model never returns a sentinel" *is* "no panic, no hang", and the refinement theorems
`A.F = S.F` include it (no specification value is a sentinel).
-/
namespace C06
open Utf8 Fold

/-- Compare / EqualFold never panic or hang, on any bytes, in either package -/
theorem compare_total (cfg : A.Cfg) (s t : Bytes) :
    A.Compare cfg s t ≠ A.fault ∧ A.Compare cfg s t ≠ A.nofuel := by
  rcases C04.compare_range cfg s t with h | h | h <;> rw [h] <;> simp [A.fault, A.nofuel]

/-- every specification offset is −1 or lies in `[0, len s]` -/
theorem spec_index_in_range (s sub : Bytes) : -1 ≤ S.index s sub ∧ S.index s sub ≤ s.length := by
  unfold S.index
  cases S.indexK s sub with
  | none => simp
  | some k => simp; exact offAt_le s k
theorem spec_lastIndex_in_range (s sub : Bytes) : -1 ≤ S.lastIndex s sub ∧ S.lastIndex s sub ≤ s.length := by
  unfold S.lastIndex
  cases S.lastIndexK s sub with
  | none => simp
  | some k => simp; exact offAt_le s k

/-- `Index` never panics or hangs, on any bytes, in either package: it equals a specification value -/
theorem index_total (cfg : A.Cfg) (s sub : Bytes) :
    A.Index cfg s sub ≠ A.fault ∧ A.Index cfg s sub ≠ A.nofuel ∧ -1 ≤ A.Index cfg s sub ∧ A.Index cfg s sub ≤ s.length := by
  rw [A.Index_eq]
  have := spec_index_in_range s sub
  refine ⟨?_, ?_, this.1, this.2⟩ <;> simp only [A.fault, A.nofuel] <;> omega

/-- `IndexRune` likewise, for every `int32` -/
theorem indexRune_total (cfg : A.Cfg) (s : Bytes) (r : Int) : A.IndexRune cfg s r = S.indexRune s r := A.IndexRune_eq cfg s r

/-- `Count` never panics or hangs and `Cut` never takes its panic branch, on any bytes, in either package -/
theorem count_cut_total (cfg : A.Cfg) (s sub : Bytes) :
    0 ≤ A.Count cfg s sub ∧ (A.Cut cfg s sub).isSome = true := by
  rw [A.Count_eq, A.Cut_eq]; exact ⟨Int.natCast_nonneg _, rfl⟩

/-- `LastIndex` never panics or hangs and stays in range -/
theorem lastIndex_total (cfg : A.Cfg) (s sub : Bytes) :
    A.LastIndex cfg s sub ≠ A.fault ∧ A.LastIndex cfg s sub ≠ A.nofuel ∧ -1 ≤ A.LastIndex cfg s sub ∧ A.LastIndex cfg s sub ≤ s.length := by
  rw [A.LastIndex_eq]
  have := spec_lastIndex_in_range s sub
  refine ⟨?_, ?_, this.1, this.2⟩ <;> simp only [A.fault, A.nofuel] <;> omega

theorem spec_indexAny_in_range (s cs : Bytes) : -1 ≤ S.indexAny s cs ∧ S.indexAny s cs ≤ s.length := by
  unfold S.indexAny
  simp only []
  cases (S.fruns s).findIdx? (fun x => (S.fruns cs).contains x) with
  | none => simp
  | some k => simp; exact offAt_le s k
theorem spec_lastIndexAny_in_range (s cs : Bytes) : -1 ≤ S.lastIndexAny s cs ∧ S.lastIndexAny s cs ≤ s.length := by
  unfold S.lastIndexAny
  simp only []
  cases (S.fruns s).reverse.findIdx? (fun x => (S.fruns cs).contains x) with
  | none => simp
  | some k => simp; exact offAt_le s _

/-- `IndexAny` / `LastIndexAny` never panic or hang and stay in range -/
theorem indexAny_total (cfg : A.Cfg) (s cs : Bytes) :
    A.IndexAny cfg s cs ≠ A.fault ∧ A.IndexAny cfg s cs ≠ A.nofuel ∧ -1 ≤ A.IndexAny cfg s cs ∧ A.IndexAny cfg s cs ≤ s.length := by
  rw [A.IndexAny_eq]
  have := spec_indexAny_in_range s cs
  refine ⟨?_, ?_, this.1, this.2⟩ <;> simp only [A.fault, A.nofuel] <;> omega
theorem lastIndexAny_total (cfg : A.Cfg) (s cs : Bytes) :
    A.LastIndexAny cfg s cs ≠ A.fault ∧ A.LastIndexAny cfg s cs ≠ A.nofuel ∧ -1 ≤ A.LastIndexAny cfg s cs ∧
      A.LastIndexAny cfg s cs ≤ s.length := by
  rw [A.LastIndexAny_eq]
  have := spec_lastIndexAny_in_range s cs
  refine ⟨?_, ?_, this.1, this.2⟩ <;> simp only [A.fault, A.nofuel] <;> omega

/-- a slice `(offset, length)` lies inside a string of length `n` -/
def InRange (n : Nat) (p : S.Slice) : Prop := p.1 + p.2 ≤ n

/-- every slice the Trim/Cut family of the specification returns is a sub-slice of `s` -/
theorem spec_slices_in_range (s t : Bytes) :
    InRange s.length (S.trimPrefix s t) ∧ InRange s.length (S.cutPrefix s t).1 ∧
    InRange s.length (S.trimSuffix s t) ∧ InRange s.length (S.cutSuffix s t).1 ∧
    InRange s.length (S.cut s t).1 ∧ InRange s.length (S.cut s t).2.1 := by
  unfold InRange
  refine ⟨?_, ?_, ?_, ?_, ?_, ?_⟩
  · unfold S.trimPrefix S.prefixLen
    split <;> rename_i h
    · split at h
      · cases h; have := offAt_le s (S.nrunes t); simp only []; omega
      · cases h
    · simp
  · unfold S.cutPrefix S.prefixLen
    split <;> rename_i h
    · split at h
      · cases h; have := offAt_le s (S.nrunes t); simp only []; omega
      · cases h
    · simp
  · unfold S.trimSuffix S.suffixStart
    simp only []
    split <;> rename_i h
    · split at h
      · cases h; have := offAt_le s ((S.fruns s).length - (S.fruns t).length); simp only []; omega
      · cases h
    · simp
  · unfold S.cutSuffix S.suffixStart
    simp only []
    split <;> rename_i h
    · split at h
      · cases h; have := offAt_le s ((S.fruns s).length - (S.fruns t).length); simp only []; omega
      · cases h
    · simp
  · unfold S.cut
    split
    · rename_i k _; have := offAt_le s k; simp only []; omega
    · simp
  · unfold S.cut
    split
    · rename_i k _; have := offAt_le s (k + S.nrunes t); simp only []; omega
    · simp

/-- the same for the algorithm model: no Trim/Cut function returns a slice outside `s` (and `Cut` returns at all) -/
theorem slices_in_range (cfg : A.Cfg) (s t : Bytes) :
    InRange s.length (A.TrimPrefix cfg s t) ∧ InRange s.length (A.CutPrefix cfg s t).1 ∧
    InRange s.length (A.TrimSuffix cfg s t) ∧ InRange s.length (A.CutSuffix cfg s t).1 ∧
    (∃ r, A.Cut cfg s t = some r ∧ InRange s.length r.1 ∧ InRange s.length r.2.1) := by
  have h := spec_slices_in_range s t
  rw [A.TrimPrefix_eq, A.CutPrefix_eq, A.TrimSuffix_eq, A.CutSuffix_eq, A.Cut_eq]
  exact ⟨h.1, h.2.1, h.2.2.1, h.2.2.2.1, _, rfl, h.2.2.2.2.1, h.2.2.2.2.2⟩

/-- the byte searches stay in range as well -/
theorem byte_searches_total (cfg : A.Cfg) (s : Bytes) (c : UInt8) :
    A.IndexByte cfg s c = S.indexByte s c ∧ A.LastIndexByte cfg s c = S.lastIndexByte s c ∧
    A.IndexByteASCII cfg s c = S.indexByteASCII s c :=
  ⟨A.IndexByte_eq cfg s c, A.LastIndexByte_eq cfg s c, A.IndexByteASCII_eq cfg s c⟩

example : A.Count {} [0xFF, 0xFF] [0xFF, 0xFF] = 1 ∧ A.Count {pkg := .byt} [0xFF, 0xFF] [0xFF, 0xFF] = 1 := by decide +kernel
/-- source level: every instruction of the regenerated go/ssa programs of both packages lies inside the subset the interpreter
    `GoSsa.run` gives a bounds-checked meaning to (indexing and slicing outside the operand are `Res.panic`, running out of fuel is
    `Res.nofuel`), every register and jump target is in range, and every call resolves.  The correspondence run executes these programs
    on every generated op (driver column G): a panic or hang of the source program is rendered `PANIC` / `HANG` there. -/
theorem source_in_subset : GoSsa.Prog.sound Gen.Src.str = true ∧ GoSsa.Prog.sound Gen.Src.byt = true :=
  ⟨GoSsa.str_sound, GoSsa.byt_sound⟩
end C06
