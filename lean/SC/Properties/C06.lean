import SC.Properties.C04
import SC.Proofs.Utf8Thy
import SC.Proofs.RIndex
import SC.Proofs.RCountByte
import SC.Proofs.RLastIndex
import SC.Proofs.RIndexAny6
/-!
# C06 — total and memory-safe on arbitrary bytes

In the algorithm model every computed index/slice position is bounds-tested (a miss yields the
sentinel `A.fault`, rendered `PANIC`) and every loop runs on fuel (running out yields `A.nofuel`,
rendered `HANG`); a real panic or hang is likewise rendered `PANIC`/`HANG` by the harness.  So
"the model never returns a sentinel" *is* "no panic, no hang", and the refinement theorems
`A.F = S.F` include it (no specification value is a sentinel).
-/
namespace C06
open Utf8 Fold

/-- Compare / EqualFold never panic or hang, on any bytes, in either package -/
theorem compare_total (cfg : A.Cfg) (s t : Bytes) :
    A.Compare cfg s t ≠ A.fault ∧ A.Compare cfg s t ≠ A.nofuel := by
  rcases C04.compare_range cfg s t with h | h | h <;> rw [h] <;> simp [A.fault, A.nofuel]

/-- every specification offset is −1 or lies in `[0, len s]` -/
theorem spec_index_in_range (s sub : Bytes) : -1 ≤ S.index s sub ∧ S.index s sub ≤ s.length := by
  unfold S.index
  cases S.indexK s sub with
  | none => simp
  | some k => simp; exact offAt_le s k
theorem spec_lastIndex_in_range (s sub : Bytes) : -1 ≤ S.lastIndex s sub ∧ S.lastIndex s sub ≤ s.length := by
  unfold S.lastIndex
  cases S.lastIndexK s sub with
  | none => simp
  | some k => simp; exact offAt_le s k

/-- `Index` never panics or hangs, on any bytes, in either package: it equals a specification value -/
theorem index_total (cfg : A.Cfg) (s sub : Bytes) :
    A.Index cfg s sub ≠ A.fault ∧ A.Index cfg s sub ≠ A.nofuel ∧ -1 ≤ A.Index cfg s sub ∧ A.Index cfg s sub ≤ s.length := by
  rw [A.Index_eq]
  have := spec_index_in_range s sub
  refine ⟨?_, ?_, this.1, this.2⟩ <;> simp only [A.fault, A.nofuel] <;> omega

/-- `IndexRune` likewise, for every `int32` -/
theorem indexRune_total (cfg : A.Cfg) (s : Bytes) (r : Int) : A.IndexRune cfg s r = S.indexRune s r := A.IndexRune_eq cfg s r

/-- `Count` never panics or hangs and `Cut` never takes its panic branch, on any bytes, in either package -/
theorem count_cut_total (cfg : A.Cfg) (s sub : Bytes) :
    0 ≤ A.Count cfg s sub ∧ (A.Cut cfg s sub).isSome = true := by
  rw [A.Count_eq, A.Cut_eq]; exact ⟨Int.natCast_nonneg _, rfl⟩

/-- `LastIndex` never panics or hangs and stays in range -/
theorem lastIndex_total (cfg : A.Cfg) (s sub : Bytes) :
    A.LastIndex cfg s sub ≠ A.fault ∧ A.LastIndex cfg s sub ≠ A.nofuel ∧ -1 ≤ A.LastIndex cfg s sub ∧ A.LastIndex cfg s sub ≤ s.length := by
  rw [A.LastIndex_eq]
  have := spec_lastIndex_in_range s sub
  refine ⟨?_, ?_, this.1, this.2⟩ <;> simp only [A.fault, A.nofuel] <;> omega

theorem spec_indexAny_in_range (s cs : Bytes) : -1 ≤ S.indexAny s cs ∧ S.indexAny s cs ≤ s.length := by
  unfold S.indexAny
  simp only []
  cases (S.fruns s).findIdx? (fun x => (S.fruns cs).contains x) with
  | none => simp
  | some k => simp; exact offAt_le s k
theorem spec_lastIndexAny_in_range (s cs : Bytes) : -1 ≤ S.lastIndexAny s cs ∧ S.lastIndexAny s cs ≤ s.length := by
  unfold S.lastIndexAny
  simp only []
  cases (S.fruns s).reverse.findIdx? (fun x => (S.fruns cs).contains x) with
  | none => simp
  | some k => simp; exact offAt_le s _

/-- `IndexAny` / `LastIndexAny` never panic or hang and stay in range -/
theorem indexAny_total (cfg : A.Cfg) (s cs : Bytes) :
    A.IndexAny cfg s cs ≠ A.fault ∧ A.IndexAny cfg s cs ≠ A.nofuel ∧ -1 ≤ A.IndexAny cfg s cs ∧ A.IndexAny cfg s cs ≤ s.length := by
  rw [A.IndexAny_eq]
  have := spec_indexAny_in_range s cs
  refine ⟨?_, ?_, this.1, this.2⟩ <;> simp only [A.fault, A.nofuel] <;> omega
theorem lastIndexAny_total (cfg : A.Cfg) (s cs : Bytes) :
    A.LastIndexAny cfg s cs ≠ A.fault ∧ A.LastIndexAny cfg s cs ≠ A.nofuel ∧ -1 ≤ A.LastIndexAny cfg s cs ∧
      A.LastIndexAny cfg s cs ≤ s.length := by
  rw [A.LastIndexAny_eq]
  have := spec_lastIndexAny_in_range s cs
  refine ⟨?_, ?_, this.1, this.2⟩ <;> simp only [A.fault, A.nofuel] <;> omega

example : A.Count {} [0xFF, 0xFF] [0xFF, 0xFF] = 1 ∧ A.Count {pkg := .byt} [0xFF, 0xFF] [0xFF, 0xFF] = 1 := by decide +kernel
end C06
