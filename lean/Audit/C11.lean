import SC.Audit
import SC.Properties.C11
#audit C11
