import SC.Audit
import SC.Properties.C11
import SC.Properties.Src.C11
#audit C11
