import SC.Audit
import SC.Properties.C01
#audit C01
