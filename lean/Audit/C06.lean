import SC.Audit
import SC.Properties.C06
#audit C06
