import SC.Audit
import SC.Properties.C02
#audit C02
