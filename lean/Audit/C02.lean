import SC.Audit
import SC.Properties.C02
import SC.Properties.Src.C02
#audit C02
