import SC.Audit
import SC.Properties.C07
#audit C07
