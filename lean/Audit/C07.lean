import SC.Audit
import SC.Properties.C07
import SC.Properties.Src.C07
#audit C07
