import SC.Audit
import SC.Properties.C10
#audit C10
