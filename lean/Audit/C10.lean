import SC.Audit
import SC.Properties.C10
import SC.Properties.Src.C10
#audit C10
