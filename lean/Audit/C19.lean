import SC.Audit
import SC.Properties.C19
#audit C19
