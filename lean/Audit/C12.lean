import SC.Audit
import SC.Properties.C12
import SC.Properties.Src.C12
#audit C12
