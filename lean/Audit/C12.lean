import SC.Audit
import SC.Properties.C12
#audit C12
