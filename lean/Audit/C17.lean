import SC.Audit
import SC.Properties.C17
import SC.Properties.Src.C17
#audit C17
