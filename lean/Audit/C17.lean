import SC.Audit
import SC.Properties.C17
#audit C17
