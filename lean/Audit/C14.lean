import SC.Audit
import SC.Properties.C14
#audit C14
