import SC.Audit
import SC.Properties.C04
import SC.Properties.Src.C04
#audit C04
