import SC.Audit
import SC.Properties.C04
#audit C04
