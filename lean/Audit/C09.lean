import SC.Audit
import SC.Properties.C09
#audit C09
