import SC.Audit
import SC.Properties.C05
#audit C05
