import SC.Audit
import SC.Properties.C18
#audit C18
