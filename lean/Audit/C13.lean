import SC.Audit
import SC.Properties.C13
#audit C13
