import SC.Audit
import SC.Properties.C15
#audit C15
