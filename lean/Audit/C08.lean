import SC.Audit
import SC.Properties.C08
#audit C08
