import SC.Audit
import SC.Properties.C20
import SC.Properties.Src.C20
#audit C20
