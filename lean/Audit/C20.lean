import SC.Audit
import SC.Properties.C20
#audit C20
