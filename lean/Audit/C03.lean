import SC.Audit
import SC.Properties.C03
#audit C03
