import SC.Audit
import SC.Properties.C16
#audit C16
