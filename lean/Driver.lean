import SC.Model.Algo
import SC.Model.Std
import SC.Gen.Consts
import SC.Gen.AsmFacts
import SC.Model.AsmLink
import SC.Model.GoSsa
import SC.Gen.GoSsa
/-!
Line-protocol driver: one op per line on stdin, one answer per line on stdout.

  <fn> <cfg> <arg1> [<arg2> [<arg3>]]

`cfg` is two or three letters: `s|b` (strcase / bytcase), `n|g` (NativeIndex true / false),
optional `a` (arm64 Cutover).  Byte strings are lower-case hex, `-` for empty; runes and bytes
are decimal.  The answer is `<A>\t<S>\t<M>`: the algorithm model's and the specification's result and, for
functions with a modelled standard-library namesake, the result of that model (`-` where there is none).  Results: ints in decimal, bools 0/1, sub-slices `(o,l)` relative to
argument 1 (`(e)` when empty), `PANIC` / `HANG` for the fault / fuel sentinels.
-/
open Utf8

def hexVal (c : Char) : Nat :=
  if '0' ≤ c ∧ c ≤ '9' then c.toNat - 48 else if 'a' ≤ c ∧ c ≤ 'f' then c.toNat - 87 else 0

def parseHex (s : String) : Bytes :=
  if s == "-" then [] else
  let rec go : List Char → Bytes
    | a :: b :: rest => UInt8.ofNat (hexVal a * 16 + hexVal b) :: go rest
    | _ => []
  go s.toList

def parseInt (s : String) : Int := s.toInt?.getD 0

def fmtInt (i : Int) : String :=
  if i == A.fault then "PANIC" else if i == A.nofuel then "HANG" else toString i
def fmtBool (b : Bool) : String := if b then "1" else "0"
def fmtSlice (p : S.Slice) : String := if p.2 = 0 then "(e)" else s!"({p.1},{p.2})"
def fmtIN (p : Int × Nat) : String := if p.1 == A.fault then "PANIC" else if p.1 == A.nofuel then "HANG" else s!"{p.1},{p.2}"

def mkCfg (c : String) : A.Cfg :=
  let l := c.toList
  let byt := l.head? == some 'b'
  { pkg := if byt then .byt else .str
    native := l.getD 1 'n' == 'n'
    arm64 := l.getD 2 ' ' == 'a'
    maxBruteForce := if byt then Gen.Consts.bytMaxBruteForce else Gen.Consts.strMaxBruteForce
    maxLen := if byt then Gen.Consts.bytMaxLen else Gen.Consts.strMaxLen
    primeRK := if byt then Gen.Consts.bytPrimeRK else Gen.Consts.strPrimeRK }

def setWords (p : UInt8 → Bool) : String :=
  let word (w : Nat) : Nat := (List.range 32).foldl (fun acc i => if p (UInt8.ofNat (w * 32 + i)) then acc + 2 ^ i else acc) 0
  ",".intercalate ((List.range 8).map fun w => toString (word w))

def fmtOpt4 : Option (Nat × Nat × Nat × Nat) → String
  | none => "nil"
  | some (a, b, c, d) => s!"{a},{b},{c},{d}"

/-- uint32(r) of an int32 -/
def toU32 (r : Int) : Nat := (r % 4294967296).toNat

def run (fn : String) (cfg : A.Cfg) (args : List String) : String × String :=
  let a1 := parseHex (args.getD 0 "-")
  let s2 := args.getD 1 "-"
  let b2 := parseHex s2
  let i2 := parseInt s2
  let c2 := UInt8.ofNat i2.toNat
  match fn with
  | "Compare" => (fmtInt (A.Compare cfg a1 b2), toString (S.compare a1 b2))
  | "EqualFold" => (fmtBool (A.EqualFold cfg a1 b2), fmtBool (S.equalFold a1 b2))
  | "HasPrefix" => (fmtBool (A.HasPrefix cfg a1 b2), fmtBool (S.hasPrefix a1 b2))
  | "HasSuffix" => (fmtBool (A.HasSuffix cfg a1 b2), fmtBool (S.hasSuffix a1 b2))
  | "TrimPrefix" => (fmtSlice (A.TrimPrefix cfg a1 b2), fmtSlice (S.trimPrefix a1 b2))
  | "TrimSuffix" => (fmtSlice (A.TrimSuffix cfg a1 b2), fmtSlice (S.trimSuffix a1 b2))
  | "CutPrefix" =>
    let a := A.CutPrefix cfg a1 b2; let s := S.cutPrefix a1 b2
    (s!"{fmtSlice a.1},{fmtBool a.2}", s!"{fmtSlice s.1},{fmtBool s.2}")
  | "CutSuffix" =>
    let a := A.CutSuffix cfg a1 b2; let s := S.cutSuffix a1 b2
    (s!"{fmtSlice a.1},{fmtBool a.2}", s!"{fmtSlice s.1},{fmtBool s.2}")
  | "Index" => (fmtInt (A.Index cfg a1 b2), toString (S.index a1 b2))
  | "LastIndex" => (fmtInt (A.LastIndex cfg a1 b2), toString (S.lastIndex a1 b2))
  | "Contains" => (fmtBool (A.Contains cfg a1 b2), fmtBool (S.contains a1 b2))
  | "Count" => (fmtInt (A.Count cfg a1 b2), toString (S.count a1 b2))
  | "Cut" =>
    let s := S.cut a1 b2
    let sa := match A.Cut cfg a1 b2 with
      | none => "PANIC"
      | some a => s!"{fmtSlice a.1},{fmtSlice a.2.1},{fmtBool a.2.2}"
    (sa, s!"{fmtSlice s.1},{fmtSlice s.2.1},{fmtBool s.2.2}")
  | "IndexAny" => (fmtInt (A.IndexAny cfg a1 b2), toString (S.indexAny a1 b2))
  | "LastIndexAny" => (fmtInt (A.LastIndexAny cfg a1 b2), toString (S.lastIndexAny a1 b2))
  | "ContainsAny" => (fmtBool (A.ContainsAny cfg a1 b2), fmtBool (S.containsAny a1 b2))
  | "IndexRune" => (fmtInt (A.IndexRune cfg a1 i2), toString (S.indexRune a1 i2))
  | "ContainsRune" => (fmtBool (A.ContainsRune cfg a1 i2), fmtBool (S.containsRune a1 i2))
  | "IndexByte" => (fmtInt (A.IndexByte cfg a1 c2), toString (S.indexByte a1 c2))
  | "LastIndexByte" => (fmtInt (A.LastIndexByte cfg a1 c2), toString (S.lastIndexByte a1 c2))
  | "IndexByteASCII" => (fmtInt (A.IndexByteASCII cfg a1 c2), toString (S.indexByteASCII a1 c2))
  | "IndexNonASCII" => (fmtInt (A.IndexNonASCII cfg a1), toString (S.indexNonASCII a1))
  | "ContainsNonASCII" => (fmtBool (A.ContainsNonASCII cfg a1), fmtBool (S.containsNonASCII a1))
  -- unexported strategies (through the hooks)
  | "hasPrefixUnicode" =>
    let a := A.hasPrefixUnicode cfg a1 b2
    (s!"{fmtBool a.1},{fmtBool a.2}", "-")
  | "hasSuffixUnicode" =>
    let a := A.hasSuffixUnicode cfg a1 b2
    (s!"{fmtBool a.1},{a.2}", "-")
  | "bruteForceIndexUnicode" => (fmtInt (A.bruteForceIndexUnicode cfg a1 b2), "-")
  | "indexRabinKarpUnicode" => (fmtInt (A.indexRabinKarpUnicode cfg a1 b2), toString (S.index a1 b2))
  | "indexRabinKarpRevUnicode" => (fmtInt (A.indexRabinKarpRevUnicode cfg a1 b2), toString (S.lastIndex a1 b2))
  | "indexRuneCase" => (fmtInt (A.indexRuneCase cfg a1 i2), "-")
  | "indexRune" => (fmtIN (A.indexRune cfg a1 i2), "-")
  | "indexRune2" => (fmtIN (A.indexRune2 cfg a1 i2.toNat (parseInt (args.getD 2 "0")).toNat), "-")
  | "lastIndexRune" => (fmtInt (A.lastIndexRune cfg a1 i2), "-")
  | "indexByte" => (fmtIN (A.indexByte cfg a1 c2), "-")
  | "nonLetterASCII" => (fmtBool (A.nonLetterASCII a1), "-")
  | "containsKelvin" => (fmtBool (A.containsKelvin cfg a1), "-")
  | "countRune" => (fmtInt (A.countRune cfg i2.toNat (a1.length + 1) a1 0), "-")
  | "hashStrUnicode" =>
    let h := A.hashStrUnicode cfg a1
    (s!"{h.1.toNat},{h.2.1.toNat},{h.2.2}", "-")
  | "hashStrRevUnicode" =>
    let h := A.hashStrRevUnicode cfg a1
    (s!"{h.1.toNat},{h.2.1.toNat},{h.2.2}", "-")
  | "makeASCIISet" =>
    let m := A.makeASCIISet a1 b2
    (s!"{setWords m.1},{fmtBool m.2}", "-")
  -- internal/tables (argument: the int32 rune in decimal)
  | "CaseFold" =>
    let r := parseInt (args.getD 0 "0")
    let u := toU32 r
    let f := Fold.caseFold u
    -- Go returns rune(p.To) or r unchanged
    (toString (if f = u then r else (f : Int)), "-")
  | "FoldMap" => (fmtOpt4 (Fold.foldMap (toU32 (parseInt (args.getD 0 "0")))), "-")
  | "FoldMapExcludingUpperLower" =>
    let p := Fold.foldsExcl (toU32 (parseInt (args.getD 0 "0")))
    (s!"{p.1},{p.2}", "-")
  | "ToUpperLower" =>
    let r := parseInt (args.getD 0 "0")
    if r < 0 then (s!"{r},{r},0", "-") else
    let p := Fold.toUpperLower r.toNat
    (s!"{p.1},{p.2.1},{fmtBool p.2.2}", "-")
  -- internal/bytealg scalar specifications
  | "kIndexByte" => (fmtInt (A.kIndexByte a1 c2), "-")
  | "kCount" => (toString (A.kCount a1 c2), "-")
  | "kIndexNonASCII" => (fmtInt (A.kIndexNonASCII a1), "-")
  -- helpers used by the checker itself
  | "dec" => (toString ((dec a1).map fun p => (p.1, p.2)), "-")
  | "fruns" => (toString (S.fruns a1), "-")
  | _ => ("bad-op", "bad-op")

/-- models of the standard library's namesakes (`Model/Std.lean`), compared with the real `strings`/`bytes` results -/
def runM (fn : String) (cfg : A.Cfg) (args : List String) : String :=
  let a1 := parseHex (args.getD 0 "-")
  let s2 := args.getD 1 "-"
  let b2 := parseHex s2
  let i2 := parseInt s2
  let c2 := UInt8.ofNat i2.toNat
  match fn with
  | "EqualFold" =>
    match (if cfg.pkg == .byt then Std.equalFoldB a1 b2 else Std.equalFoldS a1 b2) with
    | none => "HANG"
    | some b => fmtBool b
  | "Compare" => toString (Std.compare a1 b2)
  | "HasPrefix" => fmtBool (Std.hasPrefix a1 b2)
  | "HasSuffix" => fmtBool (Std.hasSuffix a1 b2)
  | "TrimPrefix" => fmtSlice (Std.trimPrefix a1 b2)
  | "TrimSuffix" => fmtSlice (Std.trimSuffix a1 b2)
  | "CutPrefix" => let s := Std.cutPrefix a1 b2; s!"{fmtSlice s.1},{fmtBool s.2}"
  | "CutSuffix" => let s := Std.cutSuffix a1 b2; s!"{fmtSlice s.1},{fmtBool s.2}"
  | "Index" => toString (Std.index a1 b2)
  | "LastIndex" => toString (Std.lastIndex a1 b2)
  | "Contains" => fmtBool (Std.contains a1 b2)
  | "Count" => toString (Std.count a1 b2)
  | "Cut" => let s := Std.cut a1 b2; s!"{fmtSlice s.1},{fmtSlice s.2.1},{fmtBool s.2.2}"
  | "IndexAny" => toString (Std.indexAny a1 b2)
  | "LastIndexAny" => toString (Std.lastIndexAny a1 b2)
  | "ContainsAny" => fmtBool (Std.containsAny a1 b2)
  | "IndexRune" => toString (Std.indexRune a1 i2)
  | "ContainsRune" => fmtBool (Std.containsRune a1 i2)
  | "IndexByte" => toString (Std.indexByte a1 c2)
  | "IndexByteASCII" => toString (Std.indexByte a1 c2)
  | "LastIndexByte" => toString (Std.lastIndexByte a1 c2)
  | _ => "-"

/-- `asm <entry point> <avx2 0|1> <page offset> <poison byte> <data hex> <needle> [<observed>]`: run the instruction-level model of an
    assembly entry point (regenerated ABI wrapper, then the kernel body it tail-calls: `Asm.call`) on the given bytes placed at the given offset
    within a page, every other byte of memory being `poison`; the arguments are in the caller's frame (the needle's upper bytes junk), every register and lane holds junk.  Answer: `<stored result>\t<1 if every load stays within pages holding argument bytes>\t<number of loads>`. -/
def runAsm (args : List String) : String :=
  match args with
  | body :: avx :: off :: poison :: hex :: needle :: _ =>
    let prog? : Option Asm.Prog := match body with
      | "IndexByte" => some Gen.Asm.wrap_IndexByte
      | "IndexByteString" => some Gen.Asm.wrap_IndexByteString
      | "Count" => some Gen.Asm.wrap_Count
      | "CountString" => some Gen.Asm.wrap_CountString
      | "IndexByteNonASCII" => some Gen.Asm.wrap_IndexByteNonASCII
      | "IndexNonASCII" => some Gen.Asm.wrap_IndexNonASCII
      | _ => none
    match prog? with
    | none => "bad-body\t0\t0"
    | some prog =>
      let data := (parseHex hex).toArray
      let len := data.size
      let base := 0x100000 + off.toNat!
      let pz := UInt8.ofNat poison.toNat!
      let c := needle.toNat!
      let st : Asm.St :=
        { r := fun _ => 0xDEADBEEF12345
          x := fun _ _ => 0xEE, y := fun _ _ => 0xEE, zf := true, cf := true, lt := true, avx2 := avx == "1", popcnt := true
          args := fun n => if n == "b_base" || n == "s_base" then base else if n == "b_len" || n == "s_len" then len
                           else if n == "c" then 0xABCD00 + c % 256 else 0x7F00
          tail := none
          mem := fun i => if base ≤ i ∧ i < base + len then data[i - base]! else pz
          loads := [], out := none }
      let fin := Asm.call prog (15 * (len + 1) + 80) st
      let safe := fin.loads.all (fun ld =>
        decide (0 < len) && decide (0 < ld.2) && decide (base / 4096 ≤ ld.1 / 4096) && decide ((ld.1 + ld.2 - 1) / 4096 ≤ (base + len - 1) / 4096))
      let o := match fin.out with | some v => toString v | none => "none"
      o ++ "\t" ++ fmtBool safe ++ "\t" ++ toString fin.loads.length
  | _ => "bad-op\t0\t0"

def hexByte (b : UInt8) : String :=
  let d (n : Nat) : Char := if n < 10 then Char.ofNat (48 + n) else Char.ofNat (87 + n)
  String.ofList [d (b.toNat / 16), d (b.toNat % 16)]

/-- `step <form index> <328-byte machine state, hex>`: one step of the instruction semantics on the given registers and vector
    lanes (11 general registers little-endian, X0..X2, Y1..Y6); answer: the resulting state in the same format and `ZF CF signed-less`. -/
def runStep (jump : Bool) (args : List String) : String :=
  match args with
  | idx :: hex :: _ =>
    let bytes := (parseHex hex).toArray
    let form? : Option (Asm.Instr × Option Asm.Instr) :=
      if jump then (Gen.Asm.jumpForms[idx.toNat!]?).map (fun p => (p.2.1, some p.2.2))
      else (Gen.Asm.stepForms[idx.toNat!]?).map (fun p => (p.2, none))
    match form? with
    | none => "bad-form"
    | some (ins, jmp?) =>
      if bytes.size != 328 then "bad-state" else
      let le (o : Nat) : Nat := (List.range 8).foldr (fun k acc => acc * 256 + bytes[o + k]!.toNat) 0
      let regIdx : Asm.Reg → Nat
        | .AX => 0 | .BX => 1 | .CX => 2 | .DX => 3 | .SI => 4 | .DI => 5 | .R8 => 6 | .R10 => 7 | .R11 => 8 | .R12 => 9 | .R13 => 10
      let xIdx : Asm.XReg → Nat | .X0 => 0 | .X1 => 1 | .X2 => 2
      let yIdx : Asm.YReg → Nat | .Y1 => 0 | .Y2 => 1 | .Y3 => 2 | .Y4 => 3 | .Y5 => 4 | .Y6 => 5
      let st : Asm.St :=
        { r := fun q => le (8 * regIdx q)
          x := fun q j => if j < 16 then bytes[88 + 16 * xIdx q + j]! else 0
          y := fun q j => if j < 32 then bytes[136 + 32 * yIdx q + j]! else 0
          zf := false, cf := false, lt := false, avx2 := true, popcnt := true, args := fun _ => 0, tail := none
          mem := fun _ => 0, loads := [], out := none }
      match Asm.step st ins with
      | none => "none"
      | some (s', _) =>
        match jmp? with
        | some j => (match Asm.step s' j with | some (_, some _) => "1" | _ => "0")
        | none =>
        let regs := [Asm.Reg.AX, .BX, .CX, .DX, .SI, .DI, .R8, .R10, .R11, .R12, .R13]
        let rs := regs.foldl (fun acc q => acc ++ String.join ((List.range 8).map (fun k => hexByte (UInt8.ofNat (s'.r q / 256 ^ k % 256))))) ""
        let xs := [Asm.XReg.X0, .X1, .X2].foldl (fun acc q => acc ++ String.join ((List.range 16).map (fun j => hexByte (s'.x q j)))) ""
        let ys := [Asm.YReg.Y1, .Y2, .Y3, .Y4, .Y5, .Y6].foldl (fun acc q => acc ++ String.join ((List.range 32).map (fun j => hexByte (s'.y q j)))) ""
        rs ++ xs ++ ys ++ " " ++ fmtBool s'.zf ++ fmtBool s'.cf ++ fmtBool s'.lt
  | _ => "bad-op"

/-- column G: the regenerated go/ssa form of the repository's own Go function, run by the interpreter `GoSsa.call`
    (only for the configuration the programs were type-checked for: `NativeIndex`, amd64 `Cutover`) -/
def fmtG (a1 : Utf8.Bytes) : GoSsa.Val → String
  | .int v => toString v
  | .bool b => fmtBool b
  | .str b root off => if b.length = 0 then "(e)" else if root = 0 ∧ b = (a1.drop off).take b.length then s!"({off},{b.length})" else "foreign-slice"
  | .nil => "(e)"
  | .arr vs => ",".intercalate (vs.map toString)
  | .cptr vs => ",".intercalate (vs.map toString)
  | _ => "?"

def gFuel : Nat := 20000000

def runG (fn : String) (cfgs : String) (args : List String) : String :=
  let l := cfgs.toList
  if l.getD 1 'n' != 'n' || l.getD 2 ' ' == 'a' then "-" else
  let byt := l.head? == some 'b'
  let prog := if byt then Gen.Src.byt else Gen.Src.str
  let a1 := parseHex (args.getD 0 "-")
  let s2 := args.getD 1 "-"
  let v1 : GoSsa.Val := .str a1 0 0
  let vb2 : GoSsa.Val := .str (parseHex s2) 1 0
  let vi2 : GoSsa.Val := .int (parseInt s2)
  let strstr := ["Compare", "EqualFold", "HasPrefix", "HasSuffix", "TrimPrefix", "TrimSuffix", "CutPrefix", "CutSuffix", "Index",
    "LastIndex", "Contains", "Count", "Cut", "IndexAny", "LastIndexAny", "ContainsAny", "hasPrefixUnicode", "hasSuffixUnicode",
    "bruteForceIndexUnicode", "indexRabinKarpUnicode", "indexRabinKarpRevUnicode", "makeASCIISet"]
  let strint := ["IndexRune", "ContainsRune", "IndexByte", "LastIndexByte", "IndexByteASCII", "indexRuneCase", "indexRune", "lastIndexRune",
    "indexByte", "countRune"]
  let str1 := ["IndexNonASCII", "ContainsNonASCII", "nonLetterASCII", "containsKelvin", "hashStrUnicode", "hashStrRevUnicode"]
  let argv? : Option (List GoSsa.Val) :=
    if strstr.contains fn then some [v1, vb2]
    else if strint.contains fn then some [v1, vi2]
    else if str1.contains fn then some [v1]
    else if fn == "indexRune2" then some [v1, vi2, .int (parseInt (args.getD 2 "0"))]
    else none
  match argv? with
  | none => "-"
  | some argv =>
    match GoSsa.call prog byt gFuel fn argv with
    | .ok vs _ => ",".intercalate (vs.map (fmtG a1))
    | .panic => "PANIC"
    | .nofuel => "HANG"
    | .stuck m => "STUCK:" ++ m.replace " " "_"

/-! `utf8 <mode> <lo> <hi>`: digest of the `Utf8` model over a whole range of inputs, compared by `harness/cmd/utf8tie` with the digest
    the real `unicode/utf8` produces.  Modes `d1 d2 d3`: every byte string of that length (`v` big-endian); `d4c`: four bytes, the first two
    arbitrary, the last two from eight boundary values; `d4`: every four-byte string in the range; per string: `DecodeRune`, `DecodeLastRune`
    and the rune count.  Mode `enc`: runes `lo-2^31 … hi-2^31`: `EncodeRune`/`string(r)`, `RuneLen`, `ValidRune`. -/
def utfMix (acc : UInt64) (x : Nat) : UInt64 := (acc ^^^ UInt64.ofNat x) * 1099511628211

def utfCls : Array UInt8 := #[0x00, 0x7F, 0x80, 0x8F, 0x90, 0xBF, 0xC0, 0xFF]

def utfBytes (mode : String) (v : Nat) : Bytes :=
  let b (k : Nat) : UInt8 := UInt8.ofNat (v / 256 ^ k % 256)
  match mode with
  | "d1" => [b 0]
  | "d2" => [b 1, b 0]
  | "d3" => [b 2, b 1, b 0]
  | "d4" => [b 3, b 2, b 1, b 0]
  | _ => [UInt8.ofNat (v / 16384 % 256), UInt8.ofNat (v / 64 % 256), utfCls[v / 8 % 8]!, utfCls[v % 8]!]

def utfSweep (mode : String) (lo hi : Nat) : UInt64 := Id.run do
  let mut acc : UInt64 := 14695981039346656037
  for v in [lo:hi] do
    if mode == "enc" then
      let r : Int := (v : Int) - 2147483648
      let e := GoSsa.encodeGo r
      acc := utfMix acc (e.foldl (fun a b => a * 256 + b.toNat) e.length)
      acc := utfMix acc (GoSsa.runeLenGo r + 1).toNat
      acc := utfMix acc (if GoSsa.validRuneGo r then 1 else 0)
    else
      let l := utfBytes mode v
      let p := decodeRune l
      let q := decodeLast l
      acc := utfMix acc (p.1 * 8 + p.2)
      acc := utfMix acc (q.1 * 8 + q.2)
      acc := utfMix acc (dec l).length
  return acc

/-- `gsample <n>`: from here on the source-level model G (fourth column) is evaluated for every `n`-th op only (thorough-scale runs) -/
partial def loop (h : IO.FS.Stream) (out : IO.FS.Stream) (every : Nat) (count : Nat) : IO Unit := do
  let line ← h.getLine
  if line.isEmpty then
    out.flush
    return ()
  let toks := (line.trimAscii.toString.splitOn " ").filter (· ≠ "")
  match toks with
  | "flush" :: _ => out.flush; loop h out every count
  | "gsample" :: n :: _ => loop h out (max 1 n.toNat!) 0
  | "asm" :: args => out.putStrLn (runAsm args); loop h out every count
  | "step" :: args => out.putStrLn (runStep false args); loop h out every count
  | "jump" :: args => out.putStrLn (runStep true args); loop h out every count
  | "utf8" :: mode :: lo :: hi :: _ => out.putStrLn (toString (utfSweep mode lo.toNat! hi.toNat!).toNat); loop h out every count
  | fn :: cfg :: args =>
    let (a, s) := run fn (mkCfg cfg) args
    let g := if count % every == 0 then runG fn cfg args else "-"
    out.putStrLn (a ++ "\t" ++ s ++ "\t" ++ runM fn (mkCfg cfg) args ++ "\t" ++ g)
    loop h out every (count + 1)
  | _ => out.putStrLn "bad-op\tbad-op\t-\t-"; loop h out every count

def main : IO Unit := do
  let stdin ← IO.getStdin
  let stdout ← IO.getStdout
  loop stdin stdout 1 0
