#!/usr/bin/env python3
"""round.py <outdir> <id>:<props,comma> ...   verify and run both changes of each sub-agent output directory <outdir>/<id>
Development tool: prints one VERIFY and one RUN line per change."""
import os, sys, subprocess
here = os.path.dirname(os.path.abspath(__file__))
out = sys.argv[1]
for spec in sys.argv[2:]:
    pid, props = spec.split(":")
    d = os.path.join(out, pid)
    for n in ("1", "2"):
        if not os.path.exists(os.path.join(d, "patch%s.diff" % n)):
            print("MISSING", d, n, flush=True)
            continue
        r = subprocess.run([sys.executable, os.path.join(here, "seedtest.py"), "verify", d, n], stdout=subprocess.PIPE, stderr=subprocess.STDOUT, text=True)
        print(r.stdout.strip().splitlines()[0] if r.stdout.strip() else "VERIFY-NO-OUTPUT", flush=True)
        r = subprocess.run([sys.executable, os.path.join(here, "seedtest.py"), "run", d, n] + props.split(","), stdout=subprocess.PIPE, stderr=subprocess.STDOUT, text=True)
        for l in r.stdout.splitlines():
            if l.startswith("RUN "):
                print(l, flush=True)
