#!/usr/bin/env python3
"""One-off helper used while moving the design-phase spikes into the framework:
copies notes/spikes/<X>.lean to lean/SC/Proofs/<X>.lean, renames imports, drops the definitions
that now live in SC/Model (named on the command line) and applies substitutions."""
import re,sys
def port(src, dst, drop=(), subs=(), imports=None, header=""):
    lines=open(src).read().split('\n')
    out=[]; i=0
    while i<len(lines):
        l=lines[i]
        m=re.match(r'^(?:partial )?(?:def|abbrev|structure|inductive|instance) (\S+)', l)
        if m and m.group(1) in drop:
            # drop preceding doc comment
            while out and (out[-1].startswith('/--') or (out[-1].strip().endswith('-/') and not out[-1].startswith('theorem')) or out[-1].startswith('    ') and False):
                if out[-1].startswith('/--'):
                    out.pop(); break
                out.pop()
            i+=1
            while i<len(lines) and lines[i].strip()!='' :
                i+=1
            continue
        out.append(l); i+=1
    s='\n'.join(out)
    s=re.sub(r'^import Proof\.(\w+)', r'import SC.Proofs.\1', s, flags=re.M)
    if imports is not None:
        s=re.sub(r'^import .*\n', '', s, flags=re.M)
        s=''.join('import %s\n'%x for x in imports)+s
    for a,b in subs:
        s=s.replace(a,b)
    open(dst,'w').write(header+s)
if __name__=='__main__':
    pass
