#!/usr/bin/env python3
"""seedsave.py <Cxx> <N> <caught-by: comma list> [<note>]   copy a confirmed seeded change into /verif/seeded/<Cxx>-<N>/"""
import json, os, re, shutil, sys
pid, n, caught = sys.argv[1], sys.argv[2], sys.argv[3]
note = sys.argv[4] if len(sys.argv) > 4 else ""
src = "/tmp/mut/out/%s" % pid
dst = "/verif/seeded/%s-%s" % (pid, n)
os.makedirs(dst, exist_ok=True)
shutil.copy(os.path.join(src, "patch%s.diff" % n), os.path.join(dst, "patch.diff"))
demo = [f for f in os.listdir(src) if f.startswith("demo%s" % n) and f.endswith(".go")][0]
shutil.copy(os.path.join(src, demo), os.path.join(dst, "demo_test.go"))
meta_txt = open(os.path.join(src, "meta%s.txt" % n)).read()
open(os.path.join(dst, "meta.txt"), "w").write(meta_txt)
files = re.findall(r"^\+\+\+ b/(\S+)", open(os.path.join(dst, "patch.diff")).read(), re.M)
meta = {
    "id": "%s-%s" % (pid, n),
    "property": pid,
    "files_changed": files,
    "author": "independent sub-agent given only the property text and a scratch worktree",
    "needs_to_manifest": "see meta.txt (the author's own description)",
    "confirmed_by": "tools/seedtest.py verify: in a fresh scratch worktree of /repo the demo passes on the clean tree, "
                    "`go build ./... && go test -vet=off -count=1 ./...` passes with the patch, the demo fails with the patch",
    "checks_run": "tools/seedtest.py run: git -C /repo apply patch.diff; bin/check <id> quick; git -C /repo checkout -- .",
    "caught_by": [c for c in caught.split(",") if c],
    "note": note,
}
json.dump(meta, open(os.path.join(dst, "meta.json"), "w"), indent=1)
print("saved", dst)
