#!/usr/bin/env python3
"""seedtest.py verify <dir> <N>          confirm a seeded change in a scratch worktree:
                                           suite passes with it, demo fails with it, demo passes without it
   seedtest.py run <dir> <N> <Cxx>...    apply <dir>/patchN.diff to /repo, run bin/check <Cxx> quick for each, undo
Development tool (not a MANIFEST command)."""
import os, re, shutil, subprocess, sys, tempfile
VERIF = os.path.dirname(os.path.dirname(os.path.abspath(__file__)))
ENV = dict(os.environ, GOFLAGS="-mod=mod", GOPROXY="off", GOSUMDB="off", GOTOOLCHAIN="local")

def sh(cmd, cwd=None, timeout=3600):
    p = subprocess.run(cmd, cwd=cwd, env=ENV, shell=isinstance(cmd, str), stdout=subprocess.PIPE, stderr=subprocess.STDOUT, text=True, errors="replace", timeout=timeout)
    return p.returncode, p.stdout

def demo_run(wt, demo):
    """returns (rc, out) of running the demo in worktree wt"""
    src = open(demo).read()
    m = re.search(r"^package (\w+)", src, re.M)
    pkg = m.group(1)
    if pkg == "main":
        d = os.path.join(wt, "zz_demo_main")
        os.makedirs(d, exist_ok=True)
        shutil.copy(demo, os.path.join(d, "main.go"))
        rc, out = sh("go run ./zz_demo_main", cwd=wt)
        shutil.rmtree(d)
        return rc, out
    sub = "."
    if pkg.startswith("bytcase"):
        sub = "./bytcase"
    elif pkg.startswith("bytealg"):
        sub = "./internal/bytealg"
    elif pkg.startswith("tables"):
        sub = "./internal/tables"
    dst = os.path.join(wt, sub, "zz_demo_test.go")
    shutil.copy(demo, dst)
    tests = re.findall(r"^func (Test\w+)\(", src, re.M)
    rc, out = sh(["go", "test", "-vet=off", "-count=1", "-run", "^(" + "|".join(tests) + ")$", sub], cwd=wt)
    os.remove(dst)
    return rc, out

def verify(d, n):
    patch = os.path.join(d, "patch%s.diff" % n)
    demo = os.path.join(d, "demo%s_test.go" % n)
    if not os.path.exists(demo):
        cands = [f for f in os.listdir(d) if f.startswith("demo%s" % n) and f.endswith(".go")]
        demo = os.path.join(d, cands[0])
    wt = tempfile.mkdtemp(prefix="seedv_")
    os.rmdir(wt)
    rc, out = sh(["git", "-C", "/repo", "worktree", "add", "-q", "--detach", wt, "HEAD"])
    assert rc == 0, out
    res = {}
    try:
        rc, out = demo_run(wt, demo)
        res["demo_clean"] = "PASS" if rc == 0 else "FAIL"
        rc, out = sh(["git", "apply", patch], cwd=wt)
        assert rc == 0, "patch does not apply: " + out
        rc, out = sh("go build ./... && go test -vet=off -count=1 ./...", cwd=wt)
        res["suite_with_patch"] = "PASS" if rc == 0 else "FAIL"
        if rc != 0:
            res["suite_out"] = out[-1500:]
        rc, out = demo_run(wt, demo)
        res["demo_with_patch"] = "PASS" if rc == 0 else "FAIL"
        res["demo_out"] = out[-800:]
    finally:
        sh(["git", "-C", "/repo", "worktree", "remove", "--force", wt])
    ok = res.get("demo_clean") == "PASS" and res.get("suite_with_patch") == "PASS" and res.get("demo_with_patch") == "FAIL"
    print("VERIFY %s patch%s: %s  %s" % (d, n, "CONFIRMED" if ok else "NOT-CONFIRMED", {k: v for k, v in res.items() if k != "demo_out"}))
    if not ok:
        print(res.get("demo_out", ""), res.get("suite_out", ""))
    return ok

def run(d, n, props, tier="quick"):
    """apply the patch to a scratch copy of /repo (never to /repo itself) and run bin/check against the copy"""
    patch = os.path.join(d, "patch%s.diff" % n)
    scratch = tempfile.mkdtemp(prefix="seedrun_")
    copy = os.path.join(scratch, "repo")
    shutil.copytree("/repo", copy, ignore=shutil.ignore_patterns(".git"))
    rc, out = sh(["git", "apply", "--unsafe-paths", "--directory=" + copy, patch], cwd="/")
    if rc != 0:
        rc, out = sh(["patch", "-p1", "-i", patch], cwd=copy)
    assert rc == 0, out
    results = {}
    # evidence written while a seeded change is applied must never replace the evidence of the unchanged tree
    evbak = tempfile.mkdtemp(prefix="seedev_")
    for f in os.listdir(VERIF + "/evidence"):
        shutil.copy2(os.path.join(VERIF + "/evidence", f), evbak)
    env = dict(ENV, VERIF_REPO=copy)
    try:
        for p in props:
            pr = subprocess.run([VERIF + "/bin/check", p, tier], cwd=VERIF, env=env, stdout=subprocess.PIPE, stderr=subprocess.STDOUT,
                                text=True, errors="replace", timeout=7200)
            rc, out = pr.returncode, pr.stdout
            last = [l for l in out.splitlines() if l.startswith(("VIOLATION", "OK ", "INFRASTRUCTURE"))]
            results[p] = (rc, last[-1] if last else out[-300:])
    finally:
        shutil.rmtree(scratch, ignore_errors=True)
        # bring the regenerated Lean data and the driver back to the unchanged tree
        sh([VERIF + "/build/extract", "-repo", "/repo", "-out", VERIF + "/lean/SC/Gen"])
        sh([VERIF + "/build/ssagen", "-repo", "/repo", "-out", VERIF + "/lean/SC/Gen/GoSsa.lean"])
        sh([sys.executable, VERIF + "/tools/asmfacts.py", "/repo", VERIF + "/lean/SC/Gen/AsmFacts.lean", VERIF + "/harness/cmd/asmstep"])
        sh(["lake", "build", "driver"], cwd=VERIF + "/lean")
        for f in os.listdir(evbak):
            shutil.copy2(os.path.join(evbak, f), VERIF + "/evidence")
        shutil.rmtree(evbak)
    for p, (rc, line) in results.items():
        print("RUN %s patch%s on %s: rc=%d %s" % (os.path.basename(d), n, p, rc, line[:300]))
    return results

if __name__ == "__main__":
    if sys.argv[1] == "verify":
        sys.exit(0 if verify(sys.argv[2], sys.argv[3]) else 1)
    if sys.argv[1] == "run":
        run(sys.argv[2], sys.argv[3], sys.argv[4:])
