#!/usr/bin/env python3
"""asmfacts.py <repo> <out.lean> [<dir for the generated Go stubs of harness/cmd/asmstep>]

Translator for C13: reads the amd64 assembly kernels the build selects and emits, per TEXT symbol and label,
the sequence of (mnemonic, integer operands) — immediates, displacements and scales, in source order;
register names and comments are dropped.  The Lean side compares this with the shape the block model was
written against (SC/Model/AsmShape.lean)."""
import os, re, sys

FILES = ["internal/bytealg/indexbyte_go122_amd64.s", "internal/bytealg/count_go122_amd64.s",
         "internal/bytealg/index_non_ascii_go122_amd64.s"]

def ints(ops):
    out = []
    for m in re.finditer(r"\$(-?(?:0x[0-9a-fA-F]+|\d+))|(?<![\w$])(-?\d+)\(|\*(\d+)\)", ops):
        tok = m.group(1) or m.group(2) or m.group(3)
        out.append(int(tok, 0))
    return out

def parse(path):
    groups = []          # (sym, label, [(mnem, ints)])
    sym, label, cur = "", "", None
    for raw in open(path, encoding="utf-8"):
        line = raw.split("//")[0].strip()
        if not line or line.startswith("#include"):
            continue
        if line.startswith("#"):
            line = "PP_" + line[1:].replace(" ", "_")      # #ifndef hasAVX2 / #endif kept as pseudo-instructions
        m = re.match(r"TEXT\s+([^\s(]+)\(SB\)", line)
        if m:
            sym = m.group(1).replace("·", "").replace("<>", "")
            label = ""
            cur = []
            groups.append((sym, label, cur))
            continue
        m = re.match(r"^([A-Za-z_][\w]*):$", line)
        if m:
            label = m.group(1)
            cur = []
            groups.append((sym, label, cur))
            continue
        parts = line.split(None, 1)
        mnem = parts[0]
        ops = parts[1] if len(parts) > 1 else ""
        if cur is None:
            continue
        cur.append((mnem, ints(ops)))
    return groups

REGS = {"AX", "BX", "CX", "DX", "SI", "DI", "R8", "R10", "R11", "R12", "R13"}
BYTE_REGS = {"CL": "CX"}
XREGS = {"X0", "X1", "X2"}
YREGS = {"Y1", "Y2", "Y3", "Y4", "Y5", "Y6"}


def parse_mem(op):
    """disp(base)(idx*1) | disp(base) | (base)  ->  (disp, base, idx or None)"""
    m = re.match(r"^(-?\d+)?\((\w+)\)(?:\((\w+)\*1\))?$", op)
    if not m or m.group(2) not in REGS or (m.group(3) and m.group(3) not in REGS):
        raise ValueError("operand " + op)
    return int(m.group(1) or 0), m.group(2), m.group(3)


def instr_ast(mnem, ops):
    """one instruction of the small paths as a term of SC/Model/Asm.lean (ValueError if outside the modelled subset)"""
    o = [x.strip() for x in ops.split(",")] if ops.strip() else []
    r = lambda x: "." + x if x in REGS else (_ for _ in ()).throw(ValueError("reg " + x))
    xr = lambda x: "." + x if x in XREGS else (_ for _ in ()).throw(ValueError("xreg " + x))
    li = lambda i: str(i) if i >= 0 else "(%d)" % i
    o = [BYTE_REGS.get(x, x) for x in o]
    if mnem in ("TESTQ", "BSFL", "CMPL", "MOVL", "SHLL", "MOVB", "SALQ", "SARQ", "SUBQ", "ANDQ", "POPCNTL") and len(o) == 2 and o[0] in REGS:
        return ".%s %s %s" % (mnem, r(o[0]), r(o[1]))
    if mnem == "SUBQ" and o[0].startswith("$"):
        return ".SUBQi %d %s" % (int(o[0][1:], 0), r(o[1]))
    if mnem == "MOVQ" and o[0].startswith("$") and o[1] in REGS:
        v = int(o[0][1:], 0)
        if v < 0:
            raise ValueError("negative immediate to register")
        return ".MOVQri %d %s" % (v, r(o[1]))
    if mnem == "TESTW" and o[0].startswith("$"):
        return ".TESTW %d %s" % (int(o[0][1:], 0), r(o[1]))
    if mnem == "SHRL" and o[0].startswith("$"):
        return ".SHRL %d %s" % (int(o[0][1:], 0), r(o[1]))
    if mnem == "LEAQ" and not o[0].endswith("(FP)"):
        d, b, i = parse_mem(o[0])
        if i is not None:
            return ".LEAQx %s %s %s %s" % (li(d), r(b), r(i), r(o[1]))
        return ".LEAQ %s %s %s" % (li(d), r(b), r(o[1]))
    yr = lambda x: "." + x if x in YREGS else (_ for _ in ()).throw(ValueError("yreg " + x))
    if mnem == "VPBROADCASTB" and o[0] in XREGS:
        return ".VPBROADCASTB %s %s" % (xr(o[0]), yr(o[1]))
    if mnem == "VMOVDQU" and len(o) == 2 and o[1] in YREGS:
        d, b, i = parse_mem(o[0])
        if i is not None:
            raise ValueError("VMOVDQU with index")
        return ".VMOVDQU %s %s %s" % (li(d), r(b), yr(o[1]))
    if mnem in ("VPOR", "VPAND", "VPCMPEQB") and len(o) == 3:
        return ".%s %s %s %s" % (mnem, yr(o[0]), yr(o[1]), yr(o[2]))
    if mnem == "VPTEST":
        return ".VPTEST %s %s" % (yr(o[0]), yr(o[1]))
    if mnem == "VPMOVMSKB":
        return ".VPMOVMSKB %s %s" % (yr(o[0]), r(o[1]))
    if mnem == "VZEROUPPER":
        return ".VZEROUPPER"
    if mnem == "POPCNTQ":
        return ".POPCNTQ %s %s" % (r(o[0]), r(o[1]))
    if mnem == "SALQ" and o[0].startswith("$"):
        return ".SALQi %d %s" % (int(o[0][1:], 0), r(o[1]))
    if mnem == "ORQ" and o[0] in REGS:
        return ".ORQ %s %s" % (r(o[0]), r(o[1]))
    if mnem == "ORL" and o[0].startswith("$"):
        return ".ORLi %d %s" % (int(o[0][1:], 0), r(o[1]))
    if mnem == "MOVD" and o[0] in REGS and o[1] in XREGS:
        return ".MOVD %s %s" % (r(o[0]), xr(o[1]))
    if mnem == "MOVQ" and len(o) == 2 and o[0] in REGS and o[1] in XREGS:
        return ".MOVQrx %s %s" % (r(o[0]), xr(o[1]))
    if mnem == "PUNPCKLBW":
        return ".PUNPCKLBW %s %s" % (xr(o[0]), xr(o[1]))
    if mnem == "PSHUFL" and o[0].startswith("$"):
        return ".PSHUFL %d %s %s" % (int(o[0][1:], 0), xr(o[1]), xr(o[2]))
    if mnem == "CMPQ" and len(o) == 2 and o[0] in REGS and o[1].startswith("$"):
        return ".CMPQi %s %d" % (r(o[0]), int(o[1][1:], 0))
    if mnem == "CMPB" and "HasAVX2" in ops and o[-1] == "$1":
        return ".CMPBavx2"
    if mnem == "CMPB" and "HasPOPCNT" in ops and o[-1] == "$1":
        return ".CMPBpopcnt"
    m = re.match(r"^(\w+)\+\d+\(FP\)$", o[0]) if o else None
    if mnem == "MOVQ" and m and o[1] in REGS:
        return '.MOVQarg "%s" %s' % (m.group(1), r(o[1]))
    if mnem == "MOVB" and m and o[1] in ("AL",):
        return '.MOVBarg "%s" .AX' % m.group(1)
    if mnem == "LEAQ" and m and m.group(1) == "ret":
        return ".LEAQret %s" % r(o[1])
    if mnem == "LEAL":
        d, b, i = parse_mem(o[0])
        if i is not None:
            raise ValueError("LEAL with index")
        return ".LEAL %s %s %s" % (li(d), r(b), r(o[1]))
    if mnem == "ADDL" and o[0].startswith("$"):
        return ".ADDLi %s %s" % (li(int(o[0][1:], 0)), r(o[1]))
    if mnem == "CMPB" and len(o) == 2 and o[0] in ("AL", "CX", "AX") and o[1].startswith("$"):
        return ".CMPBi %s %d" % (r({"AL": "AX"}.get(o[0], o[0])), int(o[1][1:], 0))
    if mnem in ("JLS", "JHI") and len(o) == 1 and re.match(r"^\w+$", o[0]):
        return '.%s "%s"' % (mnem, o[0])
    if mnem == "JMP" and len(o) == 1 and o[0].endswith("(SB)"):
        return '.TAIL "%s"' % o[0][:-4].replace("\u00b7", "").replace("<>", "")
    if mnem == "ANDQ" and o[0].startswith("$"):
        return ".ANDQi %d %s" % (int(o[0][1:], 0), r(o[1]))
    if mnem == "ADDQ" and o[0].startswith("$"):
        return ".ADDQi %d %s" % (int(o[0][1:], 0), r(o[1]))
    if mnem in ("ADDQ", "CMPQ") and len(o) == 2 and o[0] in REGS and o[1] in REGS:
        return ".%s %s %s" % (mnem, r(o[0]), r(o[1]))
    if mnem == "MOVQ" and len(o) == 2 and o[0] in REGS and o[1] in REGS:
        return ".MOVQrr %s %s" % (r(o[0]), r(o[1]))
    if mnem == "MOVOU":
        d, b, i = parse_mem(o[0])
        return ".MOVOU %s %s %s %s" % (li(d), r(b), "(some %s)" % r(i) if i else "none", xr(o[1]))
    if mnem in ("POR", "PAND", "PCMPEQB"):
        return ".%s %s %s" % (mnem, xr(o[0]), xr(o[1]))
    if mnem == "PMOVMSKB":
        return ".PMOVMSKB %s %s" % (xr(o[0]), r(o[1]))
    if mnem == "MOVQ" and o[1].startswith("("):
        d, b, i = parse_mem(o[1])
        if b != "R8" or d != 0 or i is not None:
            # the only memory the kernels may write is the result slot the wrapper put in R8 (LEAQ ret+n(FP), R8)
            raise ValueError("store to memory other than the result slot: " + ops)
        if o[0].startswith("$"):
            return ".MOVQimm %s %s" % (li(int(o[0][1:], 0)), r(b))
        return ".MOVQst %s %s" % (r(o[0]), r(b))
    if mnem in ("JEQ", "JZ", "JNZ", "JAE", "JMP", "JB", "JBE", "JLT", "JA", "JNE", "JLE") and len(o) == 1 and re.match(r"^\w+$", o[0]):
        return '.%s "%s"' % (mnem, o[0])
    if mnem == "RET":
        return ".RET"
    raise ValueError("%s %s" % (mnem, ops))


def small_prog(path, sym, labels=("small", "endofpage", "failure", "endzero")):
    """the named blocks of a body, in source order, as an Asm.Prog literal"""
    cur_sym, label, blocks, order = "", "", {}, []
    for raw in open(path, encoding="utf-8"):
        line = raw.split("//")[0].strip()
        if not line or line.startswith("#"):
            continue
        m = re.match(r"TEXT\s+([^\s(]+)\(SB\)", line)
        if m:
            cur_sym = m.group(1).replace("\u00b7", "").replace("<>", "")
            label = ""
            continue
        m = re.match(r"^([A-Za-z_][\w]*):$", line)
        if m:
            label = m.group(1)
            continue
        if cur_sym != sym or label not in labels:
            continue
        parts = line.split(None, 1)
        if parts[0] == "PCALIGN":
            continue
        if label not in blocks:
            blocks[label] = []
            order.append(label)
        blocks[label].append((parts[0], parts[1] if len(parts) > 1 else ""))
    rows = []
    for l in order:
        rows.append('  ("%s", [%s])' % (l, ", ".join(instr_ast(m, o) for m, o in blocks[l])))
    return "[\n" + ",\n".join(rows) + "]"


def body_prog(path, sym):
    """every label of a kernel body, in source order, as an Asm.Prog literal; the code before the first label is
    block "entry"; instructions outside the modelled subset become .STUCK"""
    cur_sym, label, blocks, order = "", "entry", {}, []
    stuck = 0
    for raw in open(path, encoding="utf-8"):
        line = raw.split("//")[0].strip()
        if not line or line.startswith("#"):
            continue
        m = re.match(r"TEXT\s+([^\s(]+)\(SB\)", line)
        if m:
            cur_sym = m.group(1).replace("\u00b7", "").replace("<>", "")
            label = "entry"
            continue
        if cur_sym != sym:
            continue
        m = re.match(r"^([A-Za-z_][\w]*):$", line)
        if m:
            label = m.group(1)
            if label not in blocks:
                blocks[label] = []
                order.append(label)
            continue
        parts = line.split(None, 1)
        if parts[0] == "PCALIGN":
            continue
        if label not in blocks:
            blocks[label] = []
            order.append(label)
        try:
            blocks[label].append(instr_ast(parts[0], parts[1] if len(parts) > 1 else ""))
        except ValueError:
            blocks[label].append(".STUCK")
            stuck += 1
    rows = ['  ("%s", [%s])' % (l, ", ".join(blocks[l])) for l in order]
    return "[\n" + ",\n".join(rows) + "]", stuck


def wrapper_prog(path, sym):
    """an ABI wrapper (TEXT ·Sym) as an Asm.Prog; `Jcc k(PC)` becomes a jump to a synthetic label placed k instructions
    ahead; preprocessor conditionals are kept as in the default build (macro not defined)"""
    cur_sym, ins = "", []          # ins: list of ("label", name) | ("instr", mnem, ops)
    for raw in open(path, encoding="utf-8"):
        line = raw.split("//")[0].strip()
        if not line or line.startswith("#"):
            continue
        m = re.match(r"TEXT\s+([^\s(]+)\(SB\)", line)
        if m:
            cur_sym = m.group(1).replace("\u00b7", "").replace("<>", "")
            continue
        if cur_sym != sym:
            continue
        m = re.match(r"^([A-Za-z_][\w]*):$", line)
        if m:
            ins.append(("label", m.group(1)))
            continue
        parts = line.split(None, 1)
        ins.append(("instr", parts[0], parts[1] if len(parts) > 1 else ""))
    # desugar relative jumps
    out, pending = [], {}
    idx = [k for k, x in enumerate(ins) if x[0] == "instr"]
    for n, k in enumerate(idx):
        x = ins[k]
        m = re.match(r"^(\d+)\(PC\)$", x[2].strip())
        if m:
            tgt = idx[n + int(m.group(1))] if n + int(m.group(1)) < len(idx) else None
            name = "pc%d" % (n + int(m.group(1)))
            if tgt is not None:
                pending[tgt] = name
            ins[k] = ("instr", x[1], name)
    blocks, order, label, stuck = {"entry": []}, ["entry"], "entry", 0
    for k, x in enumerate(ins):
        if k in pending:
            label = pending[k]
            blocks[label] = []
            order.append(label)
        if x[0] == "label":
            label = x[1]
            blocks[label] = []
            order.append(label)
            continue
        try:
            blocks[label].append(instr_ast(x[1], x[2]))
        except ValueError:
            blocks[label].append(".STUCK")
            stuck += 1
    rows = ['  ("%s", [%s])' % (l, ", ".join(blocks[l])) for l in order]
    return "[\n" + ",\n".join(rows) + "]", stuck


BODIES = [("internal/bytealg/indexbyte_go122_amd64.s", "indexbytebody"),
          ("internal/bytealg/indexbyte_go122_amd64.s", "indexbytebodyCase"),
          ("internal/bytealg/index_non_ascii_go122_amd64.s", "indexByteBodyNonASCII"),
          ("internal/bytealg/count_go122_amd64.s", "countbody"),
          ("internal/bytealg/count_go122_amd64.s", "countbodyCase")]
WRAPPERS = [("internal/bytealg/indexbyte_go122_amd64.s", "IndexByte"),
            ("internal/bytealg/indexbyte_go122_amd64.s", "IndexByteString"),
            ("internal/bytealg/index_non_ascii_go122_amd64.s", "IndexByteNonASCII"),
            ("internal/bytealg/index_non_ascii_go122_amd64.s", "IndexNonASCII"),
            ("internal/bytealg/count_go122_amd64.s", "Count"),
            ("internal/bytealg/count_go122_amd64.s", "CountString")]


SKIP_FORMS = (".J", ".RET", ".TAIL", ".MOVOU", ".VMOVDQU", ".MOVQst", ".MOVQimm", ".MOVQarg", ".MOVBarg", ".LEAQret",
              ".CMPBavx2", ".CMPBpopcnt", ".STUCK")
GPRS = ["AX", "BX", "CX", "DX", "SI", "DI", "R8", "R10", "R11", "R12", "R13"]


def step_forms(repo):
    """the distinct register-to-register instruction forms of the bodies and wrappers, in first-use order:
    (Lean term, assembler text)"""
    forms = {}
    for f, sym in BODIES + WRAPPERS:
        cur = ""
        for raw in open(os.path.join(repo, f), encoding="utf-8"):
            line = raw.split("//")[0].strip()
            if not line or line.startswith("#"):
                continue
            m = re.match(r"TEXT\s+([^\s(]+)\(SB\)", line)
            if m:
                cur = m.group(1).replace("\u00b7", "").replace("<>", "")
                continue
            if cur != sym or re.match(r"^([A-Za-z_][\w]*):$", line):
                continue
            parts = line.split(None, 1)
            if parts[0] == "PCALIGN":
                continue
            try:
                ast = instr_ast(parts[0], parts[1] if len(parts) > 1 else "")
            except ValueError:
                continue
            if ast.startswith(SKIP_FORMS):
                continue
            forms.setdefault(ast, (parts[0] + " " + re.sub(r"\s+", " ", parts[1] if len(parts) > 1 else "")).strip())
    return list(forms.items())


SETCC = {"JEQ": "SETEQ", "JZ": "SETEQ", "JNE": "SETNE", "JNZ": "SETNE", "JB": "SETCS", "JBE": "SETLS", "JA": "SETHI",
         "JAE": "SETCC", "JLT": "SETLT", "JLE": "SETLE", "JLS": "SETLS", "JHI": "SETHI"}


def jump_forms(repo):
    """(flag-setting instruction immediately before a conditional jump, the jump): distinct pairs over bodies and wrappers.
    A conditional jump whose predecessor is not a register-to-register form of the modelled subset (the CPU-feature tests)
    is skipped."""
    pairs = {}
    for f, sym in BODIES + WRAPPERS:
        cur, prev = "", None
        for raw in open(os.path.join(repo, f), encoding="utf-8"):
            line = raw.split("//")[0].strip()
            if not line or line.startswith("#"):
                continue
            m = re.match(r"TEXT\s+([^\s(]+)\(SB\)", line)
            if m:
                cur, prev = m.group(1).replace("\u00b7", "").replace("<>", ""), None
                continue
            if cur != sym:
                continue
            if re.match(r"^([A-Za-z_][\w]*):$", line):
                prev = None
                continue
            parts = line.split(None, 1)
            if parts[0] == "PCALIGN":
                continue
            ops = parts[1] if len(parts) > 1 else ""
            if parts[0] in SETCC and prev is not None:
                jast = '.%s "L"' % parts[0]
                pairs.setdefault((prev[0], jast), (prev[1], parts[0]))
            try:
                ast = instr_ast(parts[0], ops)
                prev = None if ast.startswith(SKIP_FORMS) else (ast, (parts[0] + " " + re.sub(r"\s+", " ", ops)).strip())
            except ValueError:
                prev = None
    return [(k[0], k[1], v[0], v[1]) for k, v in pairs.items()]


def go_stubs(forms, outdir, jumps=()):
    """one assembly stub per instruction form: load the whole register state from *State, execute the instruction exactly as
    written in the kernel source, store ZF / CF / signed-less and the whole state back"""
    s = ["// Code generated by /verif/tools/asmfacts.py from the repository's .s files. DO NOT EDIT.",
         "//go:build amd64", "", '#include "textflag.h"', ""]
    for n, (ast, txt) in enumerate(forms):
        s.append("// %s" % ast)
        s.append("TEXT \u00b7form%d(SB), NOSPLIT, $0-8" % n)
        s.append("\tMOVQ st+0(FP), R15")
        s.append("\tCMPB 356(R15), $0 // State.AVX: the YMM file exists on this CPU")
        s.append("\tJEQ  loaded")
        for k in range(6):
            s.append("\tVMOVDQU %d(R15), Y%d" % (160 + 32 * k, k + 1))
        s.append("loaded:")
        for k in range(3):
            s.append("\tMOVOU %d(R15), X%d" % (96 + 16 * k, k))
        for k, r in enumerate(GPRS):
            s.append("\tMOVQ %d(R15), %s" % (8 * k, r))
        s.append("\t" + txt)
        s.append("\tSETEQ 352(R15)")
        s.append("\tSETCS 353(R15)")
        s.append("\tSETLT 354(R15)")
        for k, r in enumerate(GPRS):
            s.append("\tMOVQ %s, %d(R15)" % (r, 8 * k))
        for k in range(3):
            s.append("\tMOVOU X%d, %d(R15)" % (k, 96 + 16 * k))
        s.append("\tCMPB 356(R15), $0")
        s.append("\tJEQ  stored")
        for k in range(6):
            s.append("\tVMOVDQU Y%d, %d(R15)" % (k + 1, 160 + 32 * k))
        s.append("\tVZEROUPPER")
        s.append("stored:")
        s.append("\tRET")
        s.append("")
    for n, (sast, jast, stxt, jm) in enumerate(jumps):
        s.append("// %s ; %s" % (sast, jast))
        s.append("TEXT \u00b7jump%d(SB), NOSPLIT, $0-8" % n)
        s.append("\tMOVQ st+0(FP), R15")
        s.append("\tCMPB 356(R15), $0")
        s.append("\tJEQ  loaded")
        for k in range(6):
            s.append("\tVMOVDQU %d(R15), Y%d" % (160 + 32 * k, k + 1))
        s.append("loaded:")
        for k in range(3):
            s.append("\tMOVOU %d(R15), X%d" % (96 + 16 * k, k))
        for k, r in enumerate(GPRS):
            s.append("\tMOVQ %d(R15), %s" % (8 * k, r))
        s.append("\t" + stxt)
        s.append("\t%s 355(R15)" % SETCC[jm])
        s.append("\tCMPB 356(R15), $0")
        s.append("\tJEQ  done")
        s.append("\tVZEROUPPER")
        s.append("done:")
        s.append("\tRET")
        s.append("")
    g = ["// Code generated by /verif/tools/asmfacts.py from the repository's .s files. DO NOT EDIT.",
         "//go:build amd64", "", "package main", ""]
    for n in range(len(forms)):
        g.append("//go:noescape")
        g.append("func form%d(st *State)" % n)
    for n in range(len(jumps)):
        g.append("//go:noescape")
        g.append("func jump%d(st *State)" % n)
    g.append("")
    g.append("var forms = []form{")
    for n, (ast, txt) in enumerate(forms):
        g.append("\t{%s, %s, form%d}," % (json_str(txt), json_str(ast), n))
    g.append("}")
    g.append("")
    g.append("// (flag-setting instruction ; conditional jump that follows it in the source): is the jump taken?")
    g.append("var jumps = []form{")
    for n, (sast, jast, stxt, jm) in enumerate(jumps):
        g.append("\t{%s, %s, jump%d}," % (json_str(stxt + " ; " + jm), json_str(sast + " ; " + jast), n))
    g.append("}")
    for name, lines in (("forms_amd64.s", s), ("forms_amd64.go", g)):
        text = "\n".join(lines) + "\n"
        path = os.path.join(outdir, name)
        if not (os.path.exists(path) and open(path, encoding="utf-8").read() == text):
            open(path, "w", encoding="utf-8").write(text)


def json_str(x):
    import json
    return json.dumps(x)


def lean_int(i):
    return str(i) if i >= 0 else "(%d)" % i

def main():
    repo, out = sys.argv[1], sys.argv[2]
    w = ["-- GENERATED by /verif/tools/asmfacts.py from the repository working tree. DO NOT EDIT.",
         "import SC.Model.Asm",
         "namespace Gen.Asm",
         "/-- per (file, TEXT symbol, label): the (mnemonic, integer operands) of its instructions, in source order -/",
         "def shape : List (String × String × String × List (String × List Int)) := ["]
    rows = []
    for f in FILES:
        p = os.path.join(repo, f)
        if not os.path.exists(p):
            print("asmfacts: missing " + p)
            sys.exit(1)
        for sym, label, ins in parse(p):
            body = ", ".join('("%s", [%s])' % (m, ", ".join(lean_int(i) for i in il)) for m, il in ins)
            rows.append('  ("%s", "%s", "%s", [%s])' % (os.path.basename(f), sym, label, body))
    w.append(",\n".join(rows))
    w.append("]")
    # the whole bodies (all labels; the AVX2 code is outside the modelled subset and appears as .STUCK)
    for f, sym in BODIES:
        lit, stuck = body_prog(os.path.join(repo, f), sym)
        w.append("open _root_.Asm.Instr _root_.Asm.Reg _root_.Asm.XReg in")
        w.append("/-- %d instructions outside the modelled subset -/" % stuck)
        w.append("def body_%s : _root_.Asm.Prog := %s" % (sym, lit))
    for f, sym in WRAPPERS:
        lit, stuck = wrapper_prog(os.path.join(repo, f), sym)
        w.append("open _root_.Asm.Instr _root_.Asm.Reg _root_.Asm.XReg in")
        w.append("/-- ABI wrapper; %d instructions outside the modelled subset -/" % stuck)
        w.append("def wrap_%s : _root_.Asm.Prog := %s" % (sym, lit))
    # the copies built by toolchains before go1.22 (//go:build amd64 && !go1.22): same translation, separate names;
    # C13.pre122_same states that they are the very same programs
    old = {"indexbyte_go122_amd64.s": "indexbyte_amd64.s", "count_go122_amd64.s": "count_amd64.s",
           "index_non_ascii_go122_amd64.s": "index_non_ascii_amd64.s"}
    pairs = []
    for f, sym in BODIES:
        lit, stuck = body_prog(os.path.join(repo, os.path.dirname(f), old[os.path.basename(f)]), sym)
        w.append("open _root_.Asm.Instr _root_.Asm.Reg _root_.Asm.XReg in")
        w.append("def pre122_body_%s : _root_.Asm.Prog := %s" % (sym, lit))
        pairs.append(("pre122_body_%s" % sym, "body_%s" % sym))
    for f, sym in WRAPPERS:
        lit, stuck = wrapper_prog(os.path.join(repo, os.path.dirname(f), old[os.path.basename(f)]), sym)
        w.append("open _root_.Asm.Instr _root_.Asm.Reg _root_.Asm.XReg in")
        w.append("def pre122_wrap_%s : _root_.Asm.Prog := %s" % (sym, lit))
        pairs.append(("pre122_wrap_%s" % sym, "wrap_%s" % sym))
    forms = step_forms(repo)
    w.append("open _root_.Asm.Instr _root_.Asm.Reg _root_.Asm.XReg _root_.Asm.YReg in")
    w.append("/-- the distinct register-to-register instruction forms of the bodies and wrappers (source text, term), in first-use order: the")
    w.append("    stubs of harness/cmd/asmstep execute each on the hardware, the driver op `step` runs `Asm.step` on the same state -/")
    w.append("def stepForms : Array (String \u00d7 _root_.Asm.Instr) := #[%s]" % ", ".join('(%s, %s)' % (json_str(txt), ast) for ast, txt in forms))
    jumps = jump_forms(repo)
    w.append("open _root_.Asm.Instr _root_.Asm.Reg _root_.Asm.XReg _root_.Asm.YReg in")
    w.append("/-- (source text, flag-setting instruction, conditional jump that immediately follows it in the source): distinct pairs -/")
    w.append("def jumpForms : Array (String \u00d7 _root_.Asm.Instr \u00d7 _root_.Asm.Instr) := #[%s]" %
             ", ".join('(%s, %s, %s)' % (json_str(stxt + " ; " + jm), sast, jast) for sast, jast, stxt, jm in jumps))
    if len(sys.argv) > 3:
        go_stubs(forms, sys.argv[3], jumps)
    w.append("/-- (program of the pre-go1.22 file, program of the go1.22 file) for every body and wrapper -/")
    w.append("def pre122_pairs : List (_root_.Asm.Prog × _root_.Asm.Prog) := [%s]" % ", ".join("(%s, %s)" % p for p in pairs))
    w.append("end Gen.Asm")
    text = "\n".join(w) + "\n"
    if not (os.path.exists(out) and open(out).read() == text):
        open(out, "w").write(text)
    print("asmfacts: %d (symbol,label) groups" % len(rows))

if __name__ == "__main__":
    main()
