#!/bin/bash
export GOFLAGS=-mod=mod GOPROXY=off GOSUMDB=off GOTOOLCHAIN=local
bin/check setup > /dev/null 2>&1
for i in 13 14 01 06 10 12 05 03 02 04 07 08 09 11 15 16 17 18 19 20; do
  s=$(date +%s)
  out=$(bin/check C$i thorough 2>&1 | tail -3)
  echo "C$i $(( $(date +%s) - s ))s :: $(echo "$out" | tail -1)"
  echo "$out" | grep -q "^OK" || echo "$out"
done
echo THOROUGH-DONE
