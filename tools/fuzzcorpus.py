#!/usr/bin/env python3
"""fuzzcorpus.py   pack the Go fuzz cache of harness/fuzz (interesting inputs found on the unchanged tree) into
harness/fuzz/corpus.txt: one line `sel aux hexA hexB` per input.  Development tool (not a MANIFEST command)."""
import ast, os, re, subprocess, sys
cache = subprocess.check_output(["go", "env", "GOCACHE"], text=True).strip()
d = os.path.join(cache, "fuzz", "verif", "harness", "fuzz", "FuzzAll")
out = "/verif/harness/fuzz/corpus.txt"
seen = set()
def val(line):
    m = re.match(r"^(byte|\[\]byte)\((.*)\)$", line.strip())
    kind, lit = m.group(1), m.group(2)
    if kind == "byte":
        if lit.startswith("'"):
            s = ast.literal_eval("b" + lit.replace("\\U", "\\\\U")) if False else None
            # Go char literal: use a tiny decoder
            body = lit[1:-1]
            if body.startswith("\\x"):
                return int(body[2:], 16)
            if body.startswith("\\"):
                return {"\\n": 10, "\\t": 9, "\\r": 13, "\\'": 39, "\\\\": 92, "\\a": 7, "\\b": 8, "\\f": 12, "\\v": 11}.get(body, ord(body[-1]))
            return ord(body) & 0xFF
        return int(lit, 0) & 0xFF
    # []byte("...") with Go escapes: \xNN, \n, \t, \\, \", \uXXXX, \UXXXXXXXX, and raw UTF-8
    body = lit[1:-1]
    res = bytearray()
    i = 0
    while i < len(body):
        c = body[i]
        if c != "\\":
            res += c.encode("utf-8"); i += 1; continue
        e = body[i + 1]
        if e == "x":
            res.append(int(body[i + 2:i + 4], 16)); i += 4
        elif e == "u":
            res += chr(int(body[i + 2:i + 6], 16)).encode("utf-8"); i += 6
        elif e == "U":
            res += chr(int(body[i + 2:i + 10], 16)).encode("utf-8"); i += 10
        elif e in "01234567":
            res.append(int(body[i + 1:i + 4], 8)); i += 4
        else:
            res.append({"n": 10, "t": 9, "r": 13, "a": 7, "b": 8, "f": 12, "v": 11, "\\": 92, '"': 34, "'": 39}[e]); i += 2
    return bytes(res)
lines = []
for f in sorted(os.listdir(d)):
    rows = open(os.path.join(d, f), encoding="utf-8", errors="surrogateescape").read().split("\n")
    if not rows or not rows[0].startswith("go test fuzz"):
        continue
    try:
        sel, aux, a, b = [val(x) for x in rows[1:5]]
    except Exception as e:
        continue
    if len(a) > 600 or len(b) > 600:
        continue
    key = (sel, aux, a, b)
    if key in seen:
        continue
    seen.add(key)
    lines.append("%d %d %s %s" % (sel, aux, a.hex() or "-", b.hex() or "-"))
open(out, "w").write("\n".join(lines) + "\n")
print("packed %d inputs into %s (%d bytes)" % (len(lines), out, os.path.getsize(out)))
