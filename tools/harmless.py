#!/usr/bin/env python3
"""harmless.py <patch>...   apply a semantics-preserving patch to /repo, run every quick check, undo; report alarms.
Development tool: measures false alarms on harmless edits (not a MANIFEST command)."""
import os, shutil, subprocess, sys, tempfile
sys.path.insert(0, os.path.dirname(os.path.abspath(__file__)))
import seedtest

def main():
    for patch in sys.argv[1:]:
        d = tempfile.mkdtemp(prefix="harmless_")
        shutil.copy(patch, os.path.join(d, "patchX.diff"))
        props = ["C%02d" % i for i in range(1, 21)]
        res = seedtest.run(d, "X", props)
        bad = {p: v for p, v in res.items() if v[0] != 0}
        print("HARMLESS %s: %d/20 checks passed; alarms: %s" % (patch, 20 - len(bad), {p: v[1][:200] for p, v in bad.items()}))
        shutil.rmtree(d)

if __name__ == "__main__":
    main()
