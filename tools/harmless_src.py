#!/usr/bin/env python3
"""harmless_src.py <patch>...   like harmless.py, but only the properties that carry source-level theorems"""
import os, shutil, sys, tempfile
sys.path.insert(0, os.path.dirname(os.path.abspath(__file__)))
import seedtest
for patch in sys.argv[1:]:
    d = tempfile.mkdtemp(prefix="harmless_")
    shutil.copy(patch, os.path.join(d, "patchX.diff"))
    props = ["C02", "C04", "C06", "C17", "C20"]
    res = seedtest.run(d, "X", props)
    bad = {p: v for p, v in res.items() if v[0] != 0}
    print("HARMLESS %s: %d/%d checks passed; alarms: %s" % (patch, len(props) - len(bad), len(props), {p: v[1][:300] for p, v in bad.items()}), flush=True)
    shutil.rmtree(d)
