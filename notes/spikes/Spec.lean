import Proof.Basic
import Proof.C03
import Proof.Find
namespace S
open Utf8

def fold (r : Nat) : Nat := Fold.caseFold r
def fruns (s : Bytes) : List Nat := (dec s).map (fun p => fold p.1)
def widths (s : Bytes) : List Nat := (dec s).map (·.2)
/-- byte offset of the k-th decode boundary -/
def offAt (s : Bytes) (k : Nat) : Nat := ((widths s).take k).sum

def lexCmp : List Nat → List Nat → Int
  | [], [] => 0
  | [], _ :: _ => -1
  | _ :: _, [] => 1
  | a :: s, b :: t => if a = b then lexCmp s t else if a < b then -1 else 1

def compare (s t : Bytes) : Int := lexCmp (fruns s) (fruns t)
def equalFold (s t : Bytes) : Bool := fruns s == fruns t

/-- end offset of the matched prefix, if `p` is a fold-prefix of `s` -/
def prefixLen (s p : Bytes) : Option Nat :=
  if (fruns p).isPrefixOf (fruns s) then some (offAt s (dec p).length) else none

/-- start offset of the matched suffix -/
def suffixStart (s p : Bytes) : Option Nat :=
  let fs := fruns s; let fp := fruns p
  if fp.length ≤ fs.length ∧ fs.drop (fs.length - fp.length) == fp then some (offAt s (fs.length - fp.length)) else none

def index (s t : Bytes) : Int :=
  match Spec.findSub (fruns s) (fruns t) with
  | some k => offAt s k
  | none => -1

/-- greatest k with `t` a prefix of `s.drop k` -/
def findSubLast : List Nat → List Nat → Option Nat
  | [], t => if t = [] then some 0 else none
  | a :: s, t =>
    match findSubLast s t with
    | some k => some (k + 1)
    | none => if t.isPrefixOf (a :: s) then some 0 else none

def lastIndex (s t : Bytes) : Int :=
  match findSubLast (fruns s) (fruns t) with
  | some k => offAt s k
  | none => -1

def countFrom : Nat → List Nat → List Nat → Nat   -- fuel
  | 0, _, _ => 0
  | _, [], _ => 0
  | fuel+1, a :: s, t => if t.isPrefixOf (a :: s) then 1 + countFrom fuel ((a :: s).drop t.length) t else countFrom fuel s t

def count (s t : Bytes) : Nat :=
  if t = [] then (dec s).length + 1 else countFrom (s.length + 1) (fruns s) (fruns t)

def validRune (r : Int) : Bool := (0 ≤ r ∧ r < 0xD800) ∨ (0xDFFF < r ∧ r ≤ 0x10FFFF)

def indexRune (s : Bytes) (r : Int) : Int :=
  if validRune r then
    match (fruns s).findIdx? (· == fold r.toNat) with
    | some k => offAt s k
    | none => -1
  else -1

def indexAny (s cs : Bytes) : Int :=
  let fc := fruns cs
  match (fruns s).findIdx? (fun x => fc.contains x) with
  | some k => offAt s k
  | none => -1

def lastIndexAny (s cs : Bytes) : Int :=
  let fc := fruns cs
  let fs := fruns s
  match fs.reverse.findIdx? (fun x => fc.contains x) with
  | some k => offAt s (fs.length - 1 - k)
  | none => -1
end S
