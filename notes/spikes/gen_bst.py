# scratch: emit the _CaseFolds table of tables_go121.go and the toolchain's orbit minima as
# balanced BST literals (Proof/C03Data.lean of the spike).  orbits.txt = lines "<rune> <orbit min>"
# dumped with unicode.SimpleFold.  The real translator will be a Go program (cmd/extract).
import re
def bst(name, ents, prefix):
    defs=[]; cnt=[0]
    def build(lo,hi):
        if lo>=hi: return '.leaf'
        mid=(lo+hi)//2
        k,a,b=ents[mid]
        l=build(lo,mid); r=build(mid+1,hi)
        e=f'(.node {l} {k} {a} {b} {r})'
        if 16<=hi-lo<48:
            nm=f'{prefix}{cnt[0]}'; cnt[0]+=1
            defs.append(f'def {nm} : T := {e}')
            return nm
        return e
    root=build(0,len(ents))
    return '\n'.join(defs)+f'\ndef {name} : T := {root}\n'
src=open('/repo/internal/tables/tables_go121.go').read()
m=re.search(r'var _CaseFolds = \[8192\]foldPair\{(.*?)\n\}',src,re.S)
ents=re.findall(r'(\d+):\s*\{0x([0-9A-F]+), 0x([0-9A-F]+)\}',m.group(1))
cf=sorted((int(s),int(a,16),int(b,16)) for s,a,b in ents)
orb=sorted((int(l.split()[0]),int(l.split()[1]),1) for l in open('orbits.txt'))
with open('C03Data.lean','w') as f:
    f.write('inductive T where\n  | leaf : T\n  | node (l : T) (k a b : Nat) (r : T) : T\n\nnamespace Gen\n')
    f.write(bst('cfTree',cf,'cfT'))
    f.write(bst('orbTree',orb,'orbT'))
    f.write('end Gen\n')

# ---- second data file of the spikes (Proof/CandData.lean): _UpperLower, _FoldMapExcludingUpperLower and
# unicode.SimpleFold ("next.txt": lines "<rune> <SimpleFold(rune)>" for runes with SimpleFold(r) != r)
def bst2(name, ents, prefix, ty='T'):
    defs=[]; cnt=[0]
    def build(lo,hi):
        if lo>=hi: return '.leaf'
        mid=(lo+hi)//2
        e=ents[mid]
        l=build(lo,mid); r=build(mid+1,hi)
        ex='(.node '+l+' '+' '.join(str(v) for v in e)+' '+r+')'
        if 16<=hi-lo<48:
            nm=f'{prefix}{cnt[0]}'; cnt[0]+=1
            defs.append(f'def {nm} : {ty} := {ex}')
            return nm
        return ex
    root=build(0,len(ents))
    return '\n'.join(defs)+f'\ndef {name} : {ty} := {root}\n'
m=re.search(r'var _UpperLower = \[8192\]\[2\]uint32\{(.*?)\n\}',src,re.S)
ul=sorted((int(s),int(a,16),int(b,16)) for s,a,b in re.findall(r'(\d+):\s*\{0x([0-9A-F]+), 0x([0-9A-F]+)\}',m.group(1)))
m=re.search(r'var _FoldMapExcludingUpperLower = \[256\]struct \{.*?\}\{(.*?)\n\}',src,re.S)
fme=sorted((int(s),int(r,16),int(a,16),int(b,16)) for s,r,a,b in re.findall(r'(\d+):\s*\{0x([0-9A-F]+), \[2\]uint16\{0x([0-9A-F]+), 0x([0-9A-F]+)\}\}',m.group(1)))
nxt=sorted((int(l.split()[0]),int(l.split()[1]),1) for l in open('next.txt'))
seeds=dict(re.findall(r'const (_\w+(?:Seed|Shift)) = (0x[0-9A-F]+|\d+)',src))
with open('CandData.lean','w') as f:
    f.write('import Proof.C03Data\ninductive T3 where\n  | leaf : T3\n  | node (l : T3) (k a b c : Nat) (r : T3) : T3\n\nnamespace Gen\n')
    f.write(bst2('ulTree',ul,'ulT'))
    f.write(bst2('fmeTree',fme,'fmeT',ty='T3'))
    f.write(bst2('nextTree',nxt,'nxT'))
    f.write(f"def ulSeed : Nat := {int(seeds['_UpperLowerSeed'],16)}\ndef ulShift : Nat := {seeds['_UpperLowerShift']}\n")
    f.write(f"def fmSeed : Nat := {int(seeds['_FoldMapSeed'],16)}\ndef fmShift : Nat := {seeds['_FoldMapShift']}\n")
    f.write('end Gen\n')
