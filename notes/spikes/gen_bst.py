# scratch: emit the _CaseFolds table of tables_go121.go and the toolchain's orbit minima as
# balanced BST literals (Proof/C03Data.lean of the spike).  orbits.txt = lines "<rune> <orbit min>"
# dumped with unicode.SimpleFold.  The real translator will be a Go program (cmd/extract).
import re
def bst(name, ents, prefix):
    defs=[]; cnt=[0]
    def build(lo,hi):
        if lo>=hi: return '.leaf'
        mid=(lo+hi)//2
        k,a,b=ents[mid]
        l=build(lo,mid); r=build(mid+1,hi)
        e=f'(.node {l} {k} {a} {b} {r})'
        if 16<=hi-lo<48:
            nm=f'{prefix}{cnt[0]}'; cnt[0]+=1
            defs.append(f'def {nm} : T := {e}')
            return nm
        return e
    root=build(0,len(ents))
    return '\n'.join(defs)+f'\ndef {name} : T := {root}\n'
src=open('/repo/internal/tables/tables_go121.go').read()
m=re.search(r'var _CaseFolds = \[8192\]foldPair\{(.*?)\n\}',src,re.S)
ents=re.findall(r'(\d+):\s*\{0x([0-9A-F]+), 0x([0-9A-F]+)\}',m.group(1))
cf=sorted((int(s),int(a,16),int(b,16)) for s,a,b in ents)
orb=sorted((int(l.split()[0]),int(l.split()[1]),1) for l in open('orbits.txt'))
with open('C03Data.lean','w') as f:
    f.write('inductive T where\n  | leaf : T\n  | node (l : T) (k a b : Nat) (r : T) : T\n\nnamespace Gen\n')
    f.write(bst('cfTree',cf,'cfT'))
    f.write(bst('orbTree',orb,'orbT'))
    f.write('end Gen\n')
