import Lean
import Proof.C03
import Proof.Kern
import Proof.Find
open Lean Elab Command

/-- list every theorem whose name starts with one of the given prefixes, with its axioms -/
elab "#audit " ns:ident* : command => do
  let env ← getEnv
  let prefixes := ns.map (·.getId)
  let mut rows : Array (Name × String) := #[]
  for (n, ci) in env.constants.toList do
    if prefixes.any (fun p => p.isPrefixOf n) then
      match ci with
      | .thmInfo _ =>
        if n.isInternal then continue
        let axs ← Lean.collectAxioms n
        rows := rows.push (n, toString (axs.qsort Name.lt))
      | _ => pure ()
  for (n, a) in rows.qsort (fun x y => Name.lt x.1 y.1) do
    logInfo m!"THEOREM {n} AXIOMS {a}"

#audit Fold Kern Spec
