import Proof.Spec
open Utf8
def hexVal (c : Char) : Nat := if c.isDigit then c.toNat - 48 else if 'a' ≤ c ∧ c ≤ 'f' then c.toNat - 87 else 0
def parseHex (s : String) : Bytes :=
  if s == "-" then [] else
  let rec go : List Char → Bytes
    | a :: b :: rest => UInt8.ofNat (hexVal a * 16 + hexVal b) :: go rest
    | _ => []
  go s.toList
def optStr : Option Nat → String | some k => toString k | none => "none"
def run (fn : String) (a b : Bytes) : String :=
  match fn with
  | "Index" => toString (S.index a b)
  | "LastIndex" => toString (S.lastIndex a b)
  | "Prefix" => optStr (S.prefixLen a b)
  | "Suffix" => optStr (S.suffixStart a b)
  | "Count" => toString (S.count a b)
  | "EqualFold" => toString (S.equalFold a b)
  | "IndexAny" => toString (S.indexAny a b)
  | "LastIndexAny" => toString (S.lastIndexAny a b)
  | "IndexRune" => toString (S.indexRune a (decodeRune b).1)
  | _ => "bad-op"
partial def loop (h : IO.FS.Stream) (out : IO.FS.Stream) : IO Unit := do
  let line ← h.getLine
  if line.isEmpty then return ()
  match line.trimAscii.toString.splitOn " " with
  | [fn, a, b] => out.putStrLn (run fn (parseHex a) (parseHex b))
  | _ => out.putStrLn "bad-op"
  loop h out
def main : IO Unit := do loop (← IO.getStdin) (← IO.getStdout)
