import Proof.C03
import Proof.CandData

def T3.get : T3 → Nat → Nat × Nat × Nat
  | .leaf, _ => (0, 0, 0)
  | .node l k a b c r, h => if h < k then l.get h else if k < h then r.get h else (a, b, c)

def T3.toList : T3 → List (Nat × Nat × Nat × Nat)
  | .leaf => []
  | .node l k a b c r => l.toList ++ (k, a, b, c) :: r.toList

theorem T3.get_mem (t : T3) (h : Nat) :
    t.get h = (0, 0, 0) ∨ (h, (t.get h).1, (t.get h).2.1, (t.get h).2.2) ∈ t.toList := by
  induction t with
  | leaf => simp [T3.get]
  | node l k a b c r ihl ihr =>
    simp only [T3.get, T3.toList]
    split
    · rcases ihl with h0 | hm
      · exact Or.inl h0
      · exact Or.inr (by simp [hm])
    · split
      · rcases ihr with h0 | hm
        · exact Or.inl h0
        · exact Or.inr (by simp [hm])
      · have : h = k := by omega
        subst this; right; simp

namespace Fold

/-- tables.toUpperLowerSpecial -/
def toUpperLowerSpecial (r : Nat) : Nat × Nat × Bool :=
  if r = 0x1C5 then (0x1C4, 0x1C6, true)
  else if r = 0x1C8 then (0x1C7, 0x1C9, true)
  else if r = 0x1CB then (0x1CA, 0x1CC, true)
  else if r = 0x1F2 then (0x1F1, 0x1F3, true)
  else (r, r, false)

def hashUL (u : Nat) : Nat := (((u ||| ((u <<< 24) % 4294967296)) * Gen.ulSeed) % 4294967296) >>> Gen.ulShift

/-- tables.ToUpperLower on a non-negative rune value -/
def toUpperLower (r : Nat) : Nat × Nat × Bool :=
  if r ≤ 0x80 then
    if 0x41 ≤ r ∧ r ≤ 0x5A then (r, r + 32, true)
    else if 0x61 ≤ r ∧ r ≤ 0x7A then (r - 32, r, true)
    else (r, r, false)
  else
    forceNat (hashUL r) fun h =>
    match Gen.ulTree.get h with
    | (p0, p1) => if p0 = r ∨ p1 = r then (p0, p1, true) else toUpperLowerSpecial r

def hashFM (u : Nat) : Nat := ((u * Gen.fmSeed) % 4294967296) >>> Gen.fmShift

/-- tables.FoldMapExcludingUpperLower -/
def foldsExcl (r : Nat) : Nat × Nat :=
  forceNat (hashFM r) fun h =>
  match Gen.fmeTree.get h with
  | (k, a0, a1) => if k = r then (a0, a1) else (0, 0)

/-- candidate test from an upper/lower pair and the extra folds (no tables involved) -/
def candOf (ul : Nat × Nat) (fe : Nat × Nat) (c : Nat) : Bool :=
  c == ul.1 || c == ul.2 || (fe.1 != 0 && (c == fe.1 || c == fe.2))

/-- the upper/lower pair `Index`/`bruteForceIndexUnicode` use for a needle rune (with the İ/ı hack) -/
def ulOf (r : Nat) : Nat × Nat :=
  if r = 0x130 ∨ r = 0x131 then (r, r) else ((toUpperLower r).1, (toUpperLower r).2.1)

/-- the candidate test `Index`/`bruteForceIndexUnicode` build for a needle rune `r` -/
def cand (r c : Nat) : Bool := candOf (ulOf r) (foldsExcl r) c

/-- unicode.SimpleFold from the toolchain dump -/
def next (u : Nat) : Nat :=
  match Gen.nextTree.get u with
  | (a, b) => if b = 1 then a else u

def inK (u : Nat) : Bool := (Gen.orbTree.get u).2 == 1

theorem inK_iff (u : Nat) : inK u = true ↔ u ∈ orbKeys := by
  constructor
  · intro h
    simp only [inK, beq_iff_eq] at h
    rcases T.get_mem Gen.orbTree u with h0 | hm
    · rw [h0] at h; simp at h
    · exact List.mem_map.mpr ⟨_, hm, rfl⟩
  · intro h
    -- every stored orbit entry carries flag 1 and is found under its key (checked below)
    exact (List.all_eq_true.mp (by decide +kernel : orbKeys.all inK = true)) u h

/-- the class of an orbit minimum: at most four members -/
def cls (m : Nat) : List Nat :=
  forceNat (next m) fun a => forceNat (next a) fun b => forceNat (next b) fun c => [m, a, b, c]

/-- per-key check on plain values (no tables involved) -/
def keyLawOf (r m : Nat) (cl : List Nat) (ul fe : Nat × Nat) (mInK : Bool) (minsOK : Bool) : Bool :=
  mInK && cl.contains r && minsOK && cl.all (fun x => candOf ul fe x) &&
  (cl.contains ul.1 && cl.contains ul.2 && (fe.1 == 0 || (cl.contains fe.1 && cl.contains fe.2)))

theorem keyLawOf_spec (r m : Nat) (cl : List Nat) (ul fe : Nat × Nat) (mInK minsOK : Bool)
    (h : keyLawOf r m cl ul fe mInK minsOK = true) :
    mInK = true ∧ r ∈ cl ∧ minsOK = true ∧ (∀ x ∈ cl, candOf ul fe x = true) ∧
    (∀ c, candOf ul fe c = true → c ∈ cl) := by
  simp only [keyLawOf, Bool.and_eq_true, Bool.or_eq_true, beq_iff_eq, List.contains_iff_mem, List.all_eq_true] at h
  obtain ⟨⟨⟨⟨h1, h2⟩, h3⟩, h4⟩, ⟨hu1, hu2⟩, hf⟩ := h
  refine ⟨h1, h2, h3, h4, ?_⟩
  intro c hc
  simp only [candOf, Bool.and_eq_true, Bool.or_eq_true, beq_iff_eq, bne_iff_ne, ne_eq] at hc
  rcases hc with (hc | hc) | ⟨hf0, hc⟩
  · rw [hc]; exact hu1
  · rw [hc]; exact hu2
  · rcases hf with hf | hf
    · exact absurd hf hf0
    · rcases hc with hc | hc
      · rw [hc]; exact hf.1
      · rw [hc]; exact hf.2

/-- per-key checks, all evaluated by the kernel over the 2878 orbit members -/
def keyLaw (r : Nat) : Bool :=
  forceNat (orbMin r) fun m =>
    keyLawOf r m (cls m) (ulOf r) (foldsExcl r) (inK m) ((cls m).all (fun x => orbMin x == m))

set_option maxRecDepth 4000 in
theorem keyLaw_all : orbKeys.all keyLaw = true := by decide +kernel

/-- table-shape checks used for runes outside every orbit -/
def ulShapeOK : Bool :=
  Gen.ulTree.toList.all fun e => (inK e.2.1 && inK e.2.2) || e.2.1 == 0x130 || e.2.2 == 0x131
def fmeShapeOK : Bool :=
  Gen.fmeTree.toList.all fun e => inK e.2.1 || (e.2.2.1 == e.2.1 && e.2.2.2 == e.2.1)
def asciiShapeOK : Bool :=
  (List.range 129).all fun r => !((0x41 ≤ r && r ≤ 0x5A) || (0x61 ≤ r && r ≤ 0x7A)) || inK r
theorem ulShapeOK_true : ulShapeOK = true := by decide +kernel
theorem fmeShapeOK_true : fmeShapeOK = true := by decide +kernel
theorem asciiShapeOK_true : asciiShapeOK = true := by decide +kernel
theorem specialsOK : inK 0x1C5 = true ∧ inK 0x1C8 = true ∧ inK 0x1CB = true ∧ inK 0x1F2 = true := by decide +kernel
end Fold
