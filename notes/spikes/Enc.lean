import Proof.Utf8Last
namespace Utf8

/-- utf8.EncodeRune for a valid rune, written arithmetically -/
def encode (r : Nat) : Bytes :=
  if r < 0x80 then [UInt8.ofNat r]
  else if r < 0x800 then [UInt8.ofNat (0xC0 + r / 64), UInt8.ofNat (0x80 + r % 64)]
  else if r < 0x10000 then [UInt8.ofNat (0xE0 + r / 4096), UInt8.ofNat (0x80 + r / 64 % 64), UInt8.ofNat (0x80 + r % 64)]
  else [UInt8.ofNat (0xF0 + r / 262144), UInt8.ofNat (0x80 + r / 4096 % 64), UInt8.ofNat (0x80 + r / 64 % 64), UInt8.ofNat (0x80 + r % 64)]

def validRune (r : Nat) : Prop := r < 0xD800 ∨ (0xDFFF < r ∧ r ≤ 0x10FFFF)

-- one-variable byte facts (kernel-decided)
theorem lead2 : ∀ b : UInt8, ¬ b < 0xC2 → b < 0xE0 → b.toNat &&& 0x1F = b.toNat - 0xC0 := by decide +kernel
theorem lead3 : ∀ b : UInt8, ¬ b < 0xE0 → b < 0xF0 → b.toNat &&& 0x0F = b.toNat - 0xE0 := by decide +kernel
theorem lead4 : ∀ b : UInt8, ¬ b < 0xF0 → b < 0xF5 → b.toNat &&& 0x07 = b.toNat - 0xF0 := by decide +kernel
theorem cont6 : ∀ b : UInt8, isCont b = true → b.toNat &&& 0x3F = b.toNat - 0x80 ∧ 0x80 ≤ b.toNat ∧ b.toNat < 0xC0 := by decide +kernel

theorem or_shift6 (a b : Nat) (hb : b < 64) : (a <<< 6) ||| b = a * 64 + b := by
  rw [← Nat.shiftLeft_add_eq_or_of_lt (by simpa using hb), Nat.shiftLeft_eq]

/-- value of a 2-byte decode, arithmetically -/
theorem decode2_val (b0 b1 : UInt8) (h0 : ¬ b0 < 0xC2) (h1 : b0 < 0xE0) (hc : isCont b1 = true) :
    ((b0.toNat &&& 0x1F) <<< 6) ||| (b1.toNat &&& 0x3F) = (b0.toNat - 0xC0) * 64 + (b1.toNat - 0x80) := by
  rw [lead2 b0 h0 h1, (cont6 b1 hc).1]
  have := cont6 b1 hc
  exact or_shift6 _ _ (by omega)

theorem ofNat_toNat_lt (n : Nat) (h : n < 256) : (UInt8.ofNat n).toNat = n := by
  simp [UInt8.toNat_ofNat, Nat.mod_eq_of_lt h]

/-- E1 (2-byte case): decoding an encoded rune gives it back, whatever follows -/
theorem decode_encode2 (r : Nat) (h1 : 0x80 ≤ r) (h2 : r < 0x800) (y : Bytes) :
    decodeRune (encode r ++ y) = (r, 2) := by
  have e : encode r = [UInt8.ofNat (0xC0 + r / 64), UInt8.ofNat (0x80 + r % 64)] := by
    simp [encode, show ¬ r < 0x80 by omega, h2]
  rw [e]
  have t0 := ofNat_toNat_lt (0xC0 + r / 64) (by omega)
  have t1 := ofNat_toNat_lt (0x80 + r % 64) (by omega)
  generalize UInt8.ofNat (0xC0 + r / 64) = B0 at t0 ⊢
  generalize UInt8.ofNat (0x80 + r % 64) = B1 at t1 ⊢
  have hb0a : ¬ B0 < 0x80 := by rw [UInt8.lt_iff_toNat_lt, t0]; simp; omega
  have hb0b : ¬ B0 < 0xC2 := by rw [UInt8.lt_iff_toNat_lt, t0]; simp; omega
  have hb0c : B0 < 0xE0 := by rw [UInt8.lt_iff_toNat_lt, t0]; simp; omega
  have hc : isCont B1 = true := by
    simp only [isCont, Bool.and_eq_true, decide_eq_true_eq, UInt8.le_iff_toNat_le, t1]; simp; omega
  simp only [List.cons_append, List.nil_append, decodeRune, hb0a, hb0b, hb0c, hc, if_true, if_false]
  have hv := decode2_val B0 B1 hb0b hb0c hc
  have hr : (B0.toNat &&& 0x1F) <<< 6 ||| B1.toNat &&& 0x3F = r := hv.trans (by omega)
  exact congrArg (fun v => (v, 2)) hr
end Utf8
