namespace Utf8
abbrev Bytes := List UInt8
def runeError : Nat := 0xFFFD

def isCont (b : UInt8) : Bool := 0x80 ≤ b && b ≤ 0xBF

/-- second-byte accept range (Go's acceptRanges) -/
def accept (b0 b1 : UInt8) : Bool :=
  (if b0 == 0xE0 then 0xA0 else if b0 == 0xF0 then 0x90 else 0x80) ≤ b1 &&
  b1 ≤ (if b0 == 0xED then 0x9F else if b0 == 0xF4 then 0x8F else 0xBF)

/-- Go's utf8.DecodeRune: (rune, width); width = 0 only for empty input. -/
def decodeRune : Bytes → Nat × Nat
  | [] => (runeError, 0)
  | b0 :: rest =>
    if b0 < 0x80 then (b0.toNat, 1)
    else if b0 < 0xC2 then (runeError, 1)
    else if b0 < 0xE0 then
      match rest with
      | b1 :: _ =>
        if isCont b1 then (((b0.toNat &&& 0x1F) <<< 6) ||| (b1.toNat &&& 0x3F), 2) else (runeError, 1)
      | _ => (runeError, 1)
    else if b0 < 0xF0 then
      match rest with
      | b1 :: b2 :: _ =>
        if accept b0 b1 && isCont b2 then
          (((b0.toNat &&& 0x0F) <<< 12) ||| ((b1.toNat &&& 0x3F) <<< 6) ||| (b2.toNat &&& 0x3F), 3)
        else (runeError, 1)
      | _ => (runeError, 1)
    else if b0 < 0xF5 then
      match rest with
      | b1 :: b2 :: b3 :: _ =>
        if accept b0 b1 && isCont b2 && isCont b3 then
          (((b0.toNat &&& 0x07) <<< 18) ||| ((b1.toNat &&& 0x3F) <<< 12) ||| ((b2.toNat &&& 0x3F) <<< 6) ||| (b3.toNat &&& 0x3F), 4)
        else (runeError, 1)
      | _ => (runeError, 1)
    else (runeError, 1)

def decSkip : Nat → Bytes → List (Nat × Nat)
  | _, [] => []
  | 0, b :: rest => let p := decodeRune (b :: rest); p :: decSkip (p.2 - 1) rest
  | k+1, _ :: rest => decSkip k rest

def dec (s : Bytes) : List (Nat × Nat) := decSkip 0 s

theorem decodeRune_width_pos (b : UInt8) (s : Bytes) : 1 ≤ (decodeRune (b :: s)).2 := by
  simp only [decodeRune]
  repeat' split
  all_goals simp
theorem decodeRune_width_le (s : Bytes) : (decodeRune s).2 ≤ s.length := by
  unfold decodeRune
  split
  · simp
  · repeat' split
    all_goals simp
theorem decSkip_eq (k : Nat) (s : Bytes) : decSkip k s = dec (s.drop k) := by
  induction s generalizing k with
  | nil => simp [dec, decSkip]
  | cons b rest ih =>
    cases k with
    | zero => simp [dec]
    | succ k => simp [decSkip, ih]

theorem dec_cons (b : UInt8) (s : Bytes) :
    dec (b :: s) = decodeRune (b :: s) :: dec ((b :: s).drop (decodeRune (b :: s)).2) := by
  have h := decodeRune_width_pos b s
  conv => lhs; unfold dec decSkip
  simp only [decSkip_eq]
  congr 1
  obtain ⟨w, hw⟩ : ∃ w, (decodeRune (b :: s)).2 = w + 1 := ⟨(decodeRune (b :: s)).2 - 1, by omega⟩
  simp [hw]

theorem dec_ascii (b : UInt8) (s : Bytes) (h : b < 0x80) : dec (b :: s) = (b.toNat, 1) :: dec s := by
  rw [dec_cons]
  have : decodeRune (b :: s) = (b.toNat, 1) := by simp [decodeRune, h]
  simp [this]

example : dec [0x61, 0xE4, 0xB8, 0x96, 0xFF, 0xE2, 0x84, 0xAA] = [(0x61,1),(0x4E16,3),(0xFFFD,1),(0x212A,3)] := by decide
end Utf8
