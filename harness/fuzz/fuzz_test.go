// Coverage-guided witness search (go test -fuzz): the real code against the naive reference of the
// specification (internal/ref).  A failure prints `WITNESS <op line>`; bin/check re-evaluates that op on
// the Lean models through the driver before anything is reported.
package fuzz

import (
	"bufio"
	"encoding/hex"
	"os"
	"strconv"
	"strings"
	"testing"

	"verif/harness/internal/impl"
	"verif/harness/internal/ref"
)

var allFns = []string{"Compare", "EqualFold", "HasPrefix", "HasSuffix", "TrimPrefix", "TrimSuffix", "CutPrefix", "CutSuffix",
	"Index", "LastIndex", "Contains", "Count", "Cut", "IndexAny", "LastIndexAny", "ContainsAny",
	"IndexRune", "ContainsRune", "IndexByte", "LastIndexByte", "IndexByteASCII", "IndexNonASCII", "ContainsNonASCII"}

func fns() []string {
	if v := os.Getenv("FUZZ_FNS"); v != "" {
		return strings.Split(v, ",")
	}
	return allFns
}

func FuzzAll(f *testing.F) {
	list := fns()
	seeds := []string{"", "a", "KkK", "ſsS", "\xff\xfe", "世界", "aaab\x00aab", "\xe2\x84", "éÉ", "𐐀𐐨", "xxxxxxxxxxxxxxxxKk", "ßẞ"}
	for i, s := range seeds {
		for k := 0; k <= len(s); k += 1 + len(s)/3 {
			f.Add(byte(i*7), byte(k), []byte(s), []byte(s[k:]))
		}
	}
	// the packed corpus of inputs found interesting on the unchanged tree (tools/fuzzcorpus.py)
	if fh, err := os.Open("corpus.txt"); err == nil {
		sc := bufio.NewScanner(fh)
		sc.Buffer(make([]byte, 1<<16), 1<<20)
		for sc.Scan() {
			p := strings.Fields(sc.Text())
			if len(p) != 4 {
				continue
			}
			sel, _ := strconv.Atoi(p[0])
			aux, _ := strconv.Atoi(p[1])
			un := func(s string) []byte {
				if s == "-" {
					return []byte{}
				}
				b, _ := hex.DecodeString(s)
				return b
			}
			f.Add(byte(sel), byte(aux), un(p[2]), un(p[3]))
		}
		fh.Close()
	}
	sfx := impl.CfgSuffix()
	f.Fuzz(func(t *testing.T, sel, aux byte, a, b []byte) {
		op, ok := mkOp(list, sfx, sel, aux, a, b)
		if !ok {
			return
		}
		want := ref.Eval(op)
		if want == "" {
			return
		}
		got := impl.Eval(op)
		if got != want {
			t.Fatalf("WITNESS %s\nreal=%s reference=%s", op.Line(), got, want)
		}
	})
}

// mkOp turns one fuzz input into an op of the line protocol.
func mkOp(list []string, sfx string, sel, aux byte, a, b []byte) (impl.Op, bool) {
	if len(a) > 4096 || len(b) > 4096 {
		return impl.Op{}, false
	}
	fn := list[int(sel)%len(list)]
	pkg := "s"
	if aux&1 == 1 {
		pkg = "b"
	}
	var args []string
	switch fn {
	case "IndexRune", "ContainsRune":
		var r int64
		switch {
		case len(b) >= 4 && aux&2 != 0:
			r = int64(int32(uint32(b[0]) | uint32(b[1])<<8 | uint32(b[2])<<16 | uint32(b[3])<<24))
		case len(b) > 0:
			rr := []rune(string(b))
			r = int64(rr[0])
		}
		args = []string{impl.Hex(a), strconv.FormatInt(r, 10)}
	case "IndexByte", "LastIndexByte", "IndexByteASCII":
		c := aux
		if len(b) > 0 {
			c = b[0]
		}
		args = []string{impl.Hex(a), strconv.Itoa(int(c))}
	case "IndexNonASCII", "ContainsNonASCII":
		args = []string{impl.Hex(a)}
	default:
		args = []string{impl.Hex(a), impl.Hex(b)}
	}
	return impl.Op{Fn: fn, Cfg: pkg + sfx, Args: args}, true
}

// TestPrintOp prints the op line of a crasher file written by the fuzzing engine (FUZZ_INPUT=<path>): used
// when the engine reports a hang or a crash of the worker instead of a WITNESS line.
func TestPrintOp(t *testing.T) {
	path := os.Getenv("FUZZ_INPUT")
	if path == "" {
		t.Skip("no FUZZ_INPUT")
	}
	data, err := os.ReadFile(path)
	if err != nil {
		t.Fatal(err)
	}
	lines := strings.Split(strings.TrimSpace(string(data)), "\n")
	if len(lines) < 5 {
		t.Fatalf("unexpected corpus file: %q", data)
	}
	getByte := func(s string) byte {
		s = strings.TrimSuffix(strings.TrimPrefix(strings.TrimSpace(s), "byte("), ")")
		if strings.HasPrefix(s, "'") {
			r, _, _, err := strconv.UnquoteChar(s[1:len(s)-1], '\'')
			if err != nil {
				t.Fatal(err)
			}
			return byte(r)
		}
		n, _ := strconv.ParseUint(s, 0, 8)
		return byte(n)
	}
	getBytes := func(s string) []byte {
		s = strings.TrimSuffix(strings.TrimPrefix(strings.TrimSpace(s), "[]byte("), ")")
		u, err := strconv.Unquote(s)
		if err != nil {
			t.Fatal(err)
		}
		return []byte(u)
	}
	op, ok := mkOp(fns(), impl.CfgSuffix(), getByte(lines[1]), getByte(lines[2]), getBytes(lines[3]), getBytes(lines[4]))
	if ok {
		os.Stdout.WriteString("WITNESS " + op.Line() + "\n")
	}
}
