//go:build amd64

// asmstep validates the hand-written instruction semantics of lean/SC/Model/Asm.lean (`Asm.step`, part of the trusted base
// of C13) against the hardware, one instruction form at a time: for every distinct register-to-register instruction form of
// the kernel bodies and ABI wrappers (regenerated stubs forms_amd64.s: the instruction text exactly as in the repository),
// random machine states are executed on the CPU and by `Asm.step` (Lean driver op `step`), and the resulting registers,
// vector lanes and the flags the model defines for that mnemonic are compared.
package main

import (
	"bufio"
	"encoding/binary"
	"encoding/hex"
	"encoding/json"
	"flag"
	"fmt"
	"math/rand"
	"os"
	"os/exec"
	"path/filepath"
	"strings"
	"time"

	"golang.org/x/sys/cpu"
)

// State mirrors the layout the stubs use: 11 general registers (AX BX CX DX SI DI R8 R10 R11 R12 R13), X0..X2, Y1..Y6, flags.
type State struct {
	R     [11]uint64
	_     [8]byte
	X     [3][16]byte
	_     [16]byte
	Y     [6][32]byte
	Flags [8]byte // ZF, CF, signed-less (SF != OF), jump taken, [4] = AVX: the stub may touch the YMM registers
}

type form struct {
	Text string
	Term string
	Fn   func(*State)
}

var (
	flagTier   = flag.String("tier", "quick", "")
	flagSeed   = flag.Int64("seed", 1, "")
	flagOut    = flag.String("out", "", "")
	flagReplay = flag.String("replay", "", "")
	flagProp   = flag.String("prop", "C13", "")
	flagDriver = flag.String("driver", "", "")
	flagNoAVX  = flag.Bool("noavx", false, "behave as on a CPU without AVX2 (the stubs then leave the YMM registers alone; AVX forms are skipped)")
)

func interesting(rng *rand.Rand) uint64 {
	switch rng.Intn(10) {
	case 0:
		return 0
	case 1:
		return ^uint64(0)
	case 2:
		return uint64(rng.Intn(130))
	case 3:
		return 1<<32 - uint64(rng.Intn(3)) + uint64(rng.Intn(3))
	case 4:
		return 1<<63 - uint64(rng.Intn(3)) + uint64(rng.Intn(3))
	case 5:
		return uint64(rng.Uint32())
	case 6:
		return uint64(1) << uint(rng.Intn(64))
	case 7:
		return uint64(rng.Intn(1<<16)) | uint64(rng.Intn(256))<<56
	}
	return rng.Uint64()
}

func lanes(rng *rand.Rand, b []byte) {
	mode := rng.Intn(4)
	for i := range b {
		switch mode {
		case 0:
			b[i] = byte(rng.Intn(256))
		case 1:
			b[i] = []byte{0, 0x80, 0xFF, 0x7F, 0x20, 'k', 'K'}[rng.Intn(7)]
		case 2:
			b[i] = 0
			if rng.Intn(12) == 0 {
				b[i] = byte(0x80 + rng.Intn(128))
			}
		default:
			b[i] = byte('a' + rng.Intn(4))
		}
	}
}

func randState(rng *rand.Rand) State {
	var s State
	for i := range s.R {
		s.R[i] = interesting(rng)
	}
	if rng.Intn(3) == 0 { // related registers: compares of equal / adjacent values
		s.R[5] = s.R[0] + uint64(rng.Intn(3)) - 1 // DI vs AX
		s.R[8] = s.R[5] + uint64(rng.Intn(3)) - 1 // R11 vs DI
		s.R[10] = s.R[5]                          // R13 vs DI
		s.R[1] = uint64(rng.Intn(70))             // BX small (lengths)
	}
	for i := range s.Y {
		lanes(rng, s.Y[i][:])
	}
	if rng.Intn(3) == 0 { // equal vectors: PCMPEQB / VPCMPEQB hits
		s.Y[1] = s.Y[0]
		s.Y[3] = s.Y[0]
	}
	lanes(rng, s.X[0][:])
	// the hardware has one register file: X1 / X2 are the low halves of Y1 / Y2
	copy(s.X[1][:], s.Y[0][:16])
	copy(s.X[2][:], s.Y[1][:16])
	if rng.Intn(3) == 0 {
		copy(s.X[0][:], s.X[1][:])
	}
	return s
}

func enc(s *State) string {
	b := make([]byte, 0, 328)
	for _, r := range s.R {
		b = binary.LittleEndian.AppendUint64(b, r)
	}
	for i := range s.X {
		b = append(b, s.X[i][:]...)
	}
	for i := range s.Y {
		b = append(b, s.Y[i][:]...)
	}
	return hex.EncodeToString(b)
}

// which flags `Asm.step` defines for a mnemonic (the others are left as they were by the model and are not compared)
func flagMask(text string) (zf, cf, lt bool) {
	m := strings.Fields(text)[0]
	switch m {
	case "CMPQ":
		return true, true, true
	case "CMPL", "CMPB", "TESTQ", "TESTW", "ANDQ", "ORQ", "POPCNTL", "POPCNTQ":
		return true, true, false
	case "ADDQ", "SUBQ", "ADDL", "BSFL", "VPTEST":
		return true, false, false
	}
	return false, false, false
}

func isAVX(text string) bool { return strings.HasPrefix(text, "V") }

func main() {
	flag.Parse()
	start := time.Now()
	haveAVX, havePOPCNT := cpu.X86.HasAVX2 && !*flagNoAVX, cpu.X86.HasPOPCNT
	usable := func(text string) bool {
		if strings.HasPrefix(text, "V") && !haveAVX {
			return false
		}
		if strings.HasPrefix(text, "POPCNT") && !havePOPCNT {
			return false
		}
		return true
	}
	skipped := 0
	per := 400
	if *flagTier == "thorough" {
		per = 20000
	}
	rng := rand.New(rand.NewSource(*flagSeed))
	type tcase struct {
		f    int
		jump bool
		in   State
	}
	var cases []tcase
	mk := func() State {
		s := randState(rng)
		if haveAVX {
			s.Flags[4] = 1
		}
		return s
	}
	for fi := range forms {
		if !usable(forms[fi].Text) {
			skipped++
			continue
		}
		for k := 0; k < per; k++ {
			cases = append(cases, tcase{fi, false, mk()})
		}
	}
	for fi := range jumps {
		if !usable(jumps[fi].Text) {
			skipped++
			continue
		}
		for k := 0; k < per; k++ {
			cases = append(cases, tcase{fi, true, mk()})
		}
	}
	cmd := exec.Command(*flagDriver)
	stdin, _ := cmd.StdinPipe()
	stdout, _ := cmd.StdoutPipe()
	cmd.Stderr = os.Stderr
	if err := cmd.Start(); err != nil {
		fmt.Fprintf(os.Stderr, "INFRASTRUCTURE-ERROR: driver: %v\n", err)
		os.Exit(2)
	}
	go func() {
		w := bufio.NewWriterSize(stdin, 1<<20)
		for i := range cases {
			if cases[i].jump {
				fmt.Fprintf(w, "jump %d %s\n", cases[i].f, enc(&cases[i].in))
			} else {
				fmt.Fprintf(w, "step %d %s\n", cases[i].f, enc(&cases[i].in))
			}
		}
		w.Flush()
		stdin.Close()
	}()
	type bad struct {
		Form, Op, Hardware, Model, What string
	}
	var bads []bad
	perForm := map[string]int{}
	sc := bufio.NewScanner(stdout)
	sc.Buffer(make([]byte, 1<<20), 1<<22)
	n := 0
	for sc.Scan() {
		if n >= len(cases) {
			break
		}
		c := cases[n]
		n++
		if c.jump {
			f := jumps[c.f]
			out := c.in
			f.Fn(&out)
			perForm[f.Text]++
			got := strings.TrimSpace(sc.Text())
			if got != fmt.Sprint(out.Flags[3]) && len(bads) < 40 {
				bads = append(bads, bad{f.Text, fmt.Sprintf("jump %d %s", c.f, enc(&c.in)), fmt.Sprintf("taken=%d", out.Flags[3]), "taken=" + got, "jump taken"})
			}
			continue
		}
		f := forms[c.f]
		out := c.in
		f.Fn(&out)
		ans := strings.Fields(sc.Text())
		if len(ans) != 2 || len(ans[0]) != 656 || len(ans[1]) != 3 {
			bads = append(bads, bad{f.Text, "step " + fmt.Sprint(c.f) + " " + enc(&c.in), "", sc.Text(), "malformed model answer"})
			continue
		}
		hw := enc(&out)
		what := ""
		// general registers
		if hw[:176] != ans[0][:176] {
			what += " registers"
		}
		if isAVX(f.Text) {
			if f.Text != "VZEROUPPER" && hw[272:] != ans[0][272:] {
				what += " ymm"
			}
		} else if hw[176:272] != ans[0][176:272] {
			what += " xmm"
		}
		zf, cf, lt := flagMask(f.Text)
		bit := func(b byte) byte { return '0' + b }
		if zf && bit(out.Flags[0]) != ans[1][0] {
			what += " ZF"
		}
		if cf && bit(out.Flags[1]) != ans[1][1] {
			what += " CF"
		}
		if lt && bit(out.Flags[2]) != ans[1][2] {
			what += " signed-less"
		}
		perForm[f.Text]++
		if what != "" && len(bads) < 40 {
			bads = append(bads, bad{f.Text, fmt.Sprintf("step %d %s", c.f, enc(&c.in)), hw + fmt.Sprintf(" %d%d%d", out.Flags[0], out.Flags[1], out.Flags[2]), sc.Text(), strings.TrimSpace(what)})
		}
	}
	cmd.Wait()
	if n != len(cases) {
		fmt.Fprintf(os.Stderr, "INFRASTRUCTURE-ERROR: driver answered %d of %d step ops\n", n, len(cases))
		os.Exit(2)
	}
	cov := map[string]any{
		"evaluations":         len(cases),
		"distinct_nontrivial": len(cases),
		"instruction_forms":   len(forms),
		"compare_jump_pairs":  len(jumps),
		"forms_skipped_cpu":   skipped,
		"cpu":                 map[string]bool{"avx2": haveAVX, "popcnt": havePOPCNT},
		"states_per_form":     per,
		"rule":                "(i) every distinct register-to-register instruction form of the five kernel bodies and six ABI wrappers (text taken from the repository's .s files) x random machine states (biased: 0, -1, 2^32 and 2^63 neighbourhoods, small lengths, equal/adjacent compare operands, lanes from {0,0x80,0xFF,...}, equal vectors): hardware vs Asm.step; compared: the 11 general registers, XMM lanes (SSE forms) or YMM lanes (AVX forms), and the flags the model defines for the mnemonic; (ii) every distinct (flag-setting instruction, conditional jump that immediately follows it in the source) pair x the same states: is the jump taken (SETcc of the jump's condition on the CPU vs Asm.step of the setter then of the jump)",
		"samples":             []any{map[string]any{"form": forms[0].Text, "term": forms[0].Term}},
		"disagreements":       len(bads),
	}
	if len(bads) > 0 {
		cov["first_disagreements"] = bads[:min(len(bads), 5)]
	}
	if *flagOut != "" {
		data, _ := json.MarshalIndent(map[string]any{"coverage": cov, "wall_s": time.Since(start).Seconds()}, "", " ")
		os.WriteFile(*flagOut, data, 0o644)
	}
	if len(bads) == 0 {
		fmt.Printf("asmstep: %d instruction forms and %d compare-jump pairs x %d states: Asm.step agrees with the hardware\n", len(forms), len(jumps), per)
		return
	}
	path := "-"
	if *flagReplay != "" {
		os.MkdirAll(*flagReplay, 0o755)
		path = filepath.Join(*flagReplay, fmt.Sprintf("%s_asmstep_%s_%d.replay", *flagProp, *flagTier, *flagSeed))
		data, _ := json.MarshalIndent(bads, "", " ")
		os.WriteFile(path, append([]byte("# property="+*flagProp+" kind=asm-step: the instruction semantics Asm.step (lean/SC/Model/Asm.lean) and the hardware disagree; replay an Op line with: printf '<Op>\\n' | lean/.lake/build/bin/driver\n"), data...), 0o644)
	}
	b := bads[0]
	fmt.Printf("DISAGREEMENT form=%q differs in: %s\n", b.Form, b.What)
	fmt.Printf("CORRESPONDENCE-BROKEN property=%s replay=%s\n", *flagProp, path)
	os.Exit(3)
}
