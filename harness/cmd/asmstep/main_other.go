//go:build !amd64

package main

import "fmt"

func main() { fmt.Println("asmstep: not an amd64 build: nothing to validate") }
