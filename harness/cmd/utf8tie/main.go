// utf8tie ties the Lean model of unicode/utf8 (lean/SC/Model/Utf8.lean: DecodeRune, DecodeLastRune, the range segmentation; GoSsa.encodeGo,
// runeLenGo, validRuneGo) to the real package of the installed toolchain over whole input ranges: every byte string of length 1, 2 and 3,
// four-byte strings with the last two bytes from eight boundary values (quick) or all 2^32 of them (thorough), and EncodeRune / RuneLen /
// ValidRune on windows of the int32 range.  Both sides fold their results into an FNV-style digest per chunk; the digests must agree.
//
//	utf8tie -driver <lean driver> -tier quick|thorough -out <json> -replay <dir> -prop C15
//
// Exit 0: all chunks agree.  Exit 3: the model and the standard library disagree (CORRESPONDENCE-BROKEN; the replay file names the chunk).
package main

import (
	"bufio"
	"encoding/json"
	"flag"
	"fmt"
	"os"
	"os/exec"
	"path/filepath"
	"runtime"
	"strings"
	"sync"
	"unicode/utf8"
)

type chunk struct {
	mode   string
	lo, hi uint64
}

func mix(acc uint64, x uint64) uint64 { return (acc ^ x) * 1099511628211 }

var cls = [8]byte{0x00, 0x7F, 0x80, 0x8F, 0x90, 0xBF, 0xC0, 0xFF}

func bytesOf(mode string, v uint64, buf *[4]byte) []byte {
	switch mode {
	case "d1":
		buf[0] = byte(v)
		return buf[:1]
	case "d2":
		buf[0], buf[1] = byte(v>>8), byte(v)
		return buf[:2]
	case "d3":
		buf[0], buf[1], buf[2] = byte(v>>16), byte(v>>8), byte(v)
		return buf[:3]
	case "d4":
		buf[0], buf[1], buf[2], buf[3] = byte(v>>24), byte(v>>16), byte(v>>8), byte(v)
		return buf[:4]
	}
	buf[0], buf[1], buf[2], buf[3] = byte(v/16384), byte(v/64), cls[v/8%8], cls[v%8]
	return buf[:4]
}

func digest(c chunk) uint64 {
	acc := uint64(14695981039346656037)
	var buf [4]byte
	var enc [4]byte
	for v := c.lo; v < c.hi; v++ {
		if c.mode == "enc" {
			r := rune(int64(v) - 2147483648)
			n := utf8.EncodeRune(enc[:], r)
			x := uint64(n)
			for _, b := range enc[:n] {
				x = x*256 + uint64(b)
			}
			acc = mix(acc, x)
			acc = mix(acc, uint64(utf8.RuneLen(r)+1))
			if utf8.ValidRune(r) {
				acc = mix(acc, 1)
			} else {
				acc = mix(acc, 0)
			}
			if s := string(r); s != string(enc[:n]) {
				acc = mix(acc, 0xBAD)
			}
			continue
		}
		l := bytesOf(c.mode, v, &buf)
		r, w := utf8.DecodeRune(l)
		acc = mix(acc, uint64(r)*8+uint64(w))
		r2, w2 := utf8.DecodeLastRune(l)
		acc = mix(acc, uint64(r2)*8+uint64(w2))
		acc = mix(acc, uint64(utf8.RuneCount(l)))
		// the string variants and a range loop must agree with the []byte ones
		rs, ws := utf8.DecodeRuneInString(string(l))
		if rs != r || ws != w {
			acc = mix(acc, 0xBAD)
		}
		k := 0
		for range string(l) {
			k++
		}
		if k != utf8.RuneCount(l) {
			acc = mix(acc, 0xBAD)
		}
	}
	return acc
}

func main() {
	driver := flag.String("driver", "", "")
	tier := flag.String("tier", "quick", "")
	out := flag.String("out", "", "")
	replay := flag.String("replay", "", "")
	prop := flag.String("prop", "C15", "")
	_ = flag.Int64("seed", 1, "")
	flag.Parse()
	var chunks []chunk
	split := func(mode string, lo, hi uint64, n uint64) {
		step := (hi - lo + n - 1) / n
		for a := lo; a < hi; a += step {
			b := a + step
			if b > hi {
				b = hi
			}
			chunks = append(chunks, chunk{mode, a, b})
		}
	}
	split("d1", 0, 256, 1)
	split("d2", 0, 65536, 1)
	split("d3", 0, 1<<24, 32)
	split("d4c", 0, 256*256*64, 16)
	off := uint64(2147483648)
	split("enc", off-70000, off+0x110000+70000, 8)
	split("enc", 0, 70000, 1)
	split("enc", (1<<32)-70000, 1<<32, 1)
	if *tier == "thorough" {
		split("d4", 0, 1<<32, 256)
	}
	want := make([]uint64, len(chunks))
	got := make([]string, len(chunks))
	var wg sync.WaitGroup
	sem := make(chan struct{}, runtime.NumCPU())
	var mu sync.Mutex
	var firstErr error
	for i := range chunks {
		wg.Add(1)
		go func(i int) {
			defer wg.Done()
			sem <- struct{}{}
			defer func() { <-sem }()
			want[i] = digest(chunks[i])
			cmd := exec.Command(*driver)
			cmd.Stdin = strings.NewReader(fmt.Sprintf("utf8 %s %d %d\n", chunks[i].mode, chunks[i].lo, chunks[i].hi))
			o, err := cmd.Output()
			if err != nil {
				mu.Lock()
				firstErr = err
				mu.Unlock()
				return
			}
			sc := bufio.NewScanner(strings.NewReader(string(o)))
			if sc.Scan() {
				got[i] = strings.TrimSpace(sc.Text())
			}
		}(i)
	}
	wg.Wait()
	if firstErr != nil {
		fmt.Fprintf(os.Stderr, "utf8tie: driver: %v\n", firstErr)
		os.Exit(2)
	}
	var bad []string
	var evals uint64
	for i, c := range chunks {
		evals += c.hi - c.lo
		if got[i] != fmt.Sprintf("%d", want[i]) {
			bad = append(bad, fmt.Sprintf("utf8 %s %d %d   # unicode/utf8 digest %d, model digest %s", c.mode, c.lo, c.hi, want[i], got[i]))
		}
	}
	cov := map[string]any{
		"evaluations":         evals,
		"distinct_nontrivial": evals,
		"chunks":              len(chunks),
		"disagreements":       len(bad),
		"rule": "Lean model of unicode/utf8 vs the real package over whole ranges: every byte string of length 1..3, four-byte strings (first two bytes arbitrary, last two from 8 boundary values; thorough: all 2^32) through DecodeRune, DecodeLastRune, RuneCount (and the string variants / a range loop on the Go side); EncodeRune = string(r), RuneLen, ValidRune on [-70000, 0x110000+70000] and both ends of the int32 range; FNV-style digests per chunk must agree",
	}
	if *out != "" {
		b, _ := json.Marshal(map[string]any{"coverage": cov})
		os.WriteFile(*out, b, 0o644)
	}
	if len(bad) > 0 {
		path := "-"
		if *replay != "" {
			os.MkdirAll(*replay, 0o755)
			path = filepath.Join(*replay, fmt.Sprintf("%s_utf8tie_%s.replay", *prop, *tier))
			os.WriteFile(path, []byte("# property="+*prop+" kind=utf8-model: the Lean model of unicode/utf8 and the installed package disagree on these ranges\n# replay: printf '<line>\\n' | lean/.lake/build/bin/driver   (compare with the digest in the comment)\n"+strings.Join(bad, "\n")+"\n"), 0o644)
		}
		fmt.Printf("utf8tie: %d of %d chunks disagree\nCORRESPONDENCE-BROKEN property=%s replay=%s\n", len(bad), len(chunks), *prop, path)
		os.Exit(3)
	}
	fmt.Printf("utf8tie: %d inputs in %d chunks: model = unicode/utf8\n", evals, len(chunks))
}
