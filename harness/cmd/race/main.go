// race validates the C18 fact model at run time (build with -race): N goroutines call a PRNG mix
// of all exported functions of both packages on SHARED backing arrays; every argument is
// snapshotted before and compared after; every call is executed alone first and its result must
// be reproduced under concurrency; returned slices must alias argument 1.  The parent process
// re-executes itself as a child so that a race report (exit code 66) can be turned into a
// VIOLATION line with a replay file.
package main

import (
	"bytes"
	"encoding/json"
	"flag"
	"fmt"
	"os"
	"os/exec"
	"path/filepath"
	"sync"
	"time"
	"unsafe"

	"verif/harness/internal/api"
	"verif/harness/internal/gen"
)

var (
	flagTier   = flag.String("tier", "quick", "")
	flagSeed   = flag.Int64("seed", 1, "")
	flagOut    = flag.String("out", "", "")
	flagReplay = flag.String("replay", "", "")
	flagProp   = flag.String("prop", "C18", "")
	flagChild  = flag.Bool("child", false, "")
)

type result struct {
	I      int
	B      bool
	O1, L1 int
	O2, L2 int
}

func off(base, p unsafe.Pointer, n int) int {
	if n == 0 {
		return 0
	}
	return int(uintptr(p) - uintptr(base))
}

func capture(fn api.Fn, a *api.Args) result {
	r := result{I: a.I, B: a.B}
	if fn.Byt {
		b := unsafe.Pointer(unsafe.SliceData(a.SB))
		r.O1, r.L1 = off(b, unsafe.Pointer(unsafe.SliceData(a.RB1)), len(a.RB1)), len(a.RB1)
		r.O2, r.L2 = off(b, unsafe.Pointer(unsafe.SliceData(a.RB2)), len(a.RB2)), len(a.RB2)
	} else {
		b := unsafe.Pointer(unsafe.StringData(a.S))
		r.O1, r.L1 = off(b, unsafe.Pointer(unsafe.StringData(a.RS1)), len(a.RS1)), len(a.RS1)
		r.O2, r.L2 = off(b, unsafe.Pointer(unsafe.StringData(a.RS2)), len(a.RS2)), len(a.RS2)
	}
	return r
}

type problem struct {
	Fn, Pkg, S, T, What string
}

func child() int {
	scale := 1
	if *flagTier == "thorough" {
		scale = 5
	}
	g := gen.New(*flagSeed*131+7, false, scale)
	var pairs []gen.Pair
	add := func(p gen.Pair) { pairs = append(pairs, p) }
	g.Embedded(60*scale, add)
	g.Random(40*scale, add)
	g.LongNeedle(20*scale, add)
	// shared backing arrays: every goroutine gets sub-slices of the same arrays
	type job struct {
		fn           api.Fn
		a            api.Args
		want         result
		snapS, snapT []byte
	}
	var jobs []job
	for _, p := range pairs {
		for _, fn := range api.Table {
			a := api.Args{S: string(p.S), T: string(p.T), SB: p.S, TB: p.T}
			if len(p.T) > 0 {
				a.C = p.T[0]
				a.R = []rune(string(p.T))[0]
			}
			fn.Call(&a)
			jobs = append(jobs, job{fn: fn, a: a, want: capture(fn, &a), snapS: append([]byte{}, p.S...), snapT: append([]byte{}, p.T...)})
		}
	}
	const workers = 16
	var mu sync.Mutex
	var probs []problem
	var wg sync.WaitGroup
	rounds := 3
	for w := 0; w < workers; w++ {
		wg.Add(1)
		go func(w int) {
			defer wg.Done()
			for r := 0; r < rounds; r++ {
				for k := range jobs {
					j := &jobs[(k*7+w*13+r)%len(jobs)]
					a := j.a // private copy of the headers, SHARED backing arrays
					j.fn.Call(&a)
					got := capture(j.fn, &a)
					pkg := "strcase"
					if j.fn.Byt {
						pkg = "bytcase"
					}
					bad := ""
					if got != j.want {
						bad = fmt.Sprintf("result under concurrency %+v differs from the result alone %+v", got, j.want)
					} else if (got.L1 > 0 && (got.O1 < 0 || got.O1+got.L1 > len(a.SB))) || (got.L2 > 0 && (got.O2 < 0 || got.O2+got.L2 > len(a.SB))) {
						bad = "returned value does not alias the first argument"
					}
					if bad != "" {
						mu.Lock()
						probs = append(probs, problem{j.fn.Name, pkg, fmt.Sprintf("%x", j.snapS), fmt.Sprintf("%x", j.snapT), bad})
						mu.Unlock()
					}
				}
			}
		}(w)
	}
	wg.Wait()
	// arguments unchanged?
	for i := range jobs {
		j := &jobs[i]
		if !bytes.Equal(j.a.SB, j.snapS) || !bytes.Equal(j.a.TB, j.snapT) || j.a.S != string(j.snapS) || j.a.T != string(j.snapT) {
			pkg := "strcase"
			if j.fn.Byt {
				pkg = "bytcase"
			}
			probs = append(probs, problem{j.fn.Name, pkg, fmt.Sprintf("%x", j.snapS), fmt.Sprintf("%x", j.snapT), "an argument was modified"})
		}
	}
	out := map[string]any{"calls": len(jobs) * workers * rounds, "jobs": len(jobs), "workers": workers, "problems": probs}
	data, _ := json.Marshal(out)
	fmt.Println("RACE-CHILD-RESULT " + string(data))
	if len(probs) > 0 {
		return 3
	}
	return 0
}

func main() {
	flag.Parse()
	if *flagChild {
		os.Exit(child())
	}
	start := time.Now()
	cmd := exec.Command(os.Args[0], "-child", "-tier", *flagTier, "-seed", fmt.Sprint(*flagSeed))
	cmd.Env = append(os.Environ(), "GORACE=halt_on_error=1 exitcode=66")
	outb, err := cmd.CombinedOutput()
	rc := 0
	if err != nil {
		if ee, ok := err.(*exec.ExitError); ok {
			rc = ee.ExitCode()
		} else {
			fmt.Fprintf(os.Stderr, "INFRASTRUCTURE-ERROR: %v\n", err)
			os.Exit(2)
		}
	}
	var res struct {
		Calls, Jobs, Workers int
		Problems             []problem
	}
	if i := bytes.Index(outb, []byte("RACE-CHILD-RESULT ")); i >= 0 {
		line := outb[i+len("RACE-CHILD-RESULT "):]
		if k := bytes.IndexByte(line, '\n'); k >= 0 {
			line = line[:k]
		}
		json.Unmarshal(line, &res)
	}
	race := bytes.Contains(outb, []byte("DATA RACE")) || rc == 66
	cov := map[string]any{
		"evaluations":         res.Calls,
		"distinct_nontrivial": res.Jobs,
		"rule":                "16 goroutines x 3 rounds x (every exported function x generated argument tuples) on shared backing arrays under the race detector; distinct = (function, argument tuple)",
		"samples":             []any{map[string]any{"workers": res.Workers, "jobs": res.Jobs, "race_detector_exit": rc}},
		"violations":          len(res.Problems),
	}
	if *flagOut != "" {
		data, _ := json.MarshalIndent(map[string]any{"coverage": cov, "wall_s": time.Since(start).Seconds()}, "", " ")
		os.WriteFile(*flagOut, data, 0o644)
	}
	if !race && rc == 0 {
		fmt.Printf("race: %d concurrent calls, no data race, results reproducible, arguments unchanged\n", res.Calls)
		return
	}
	if !race && rc != 3 {
		fmt.Fprintf(os.Stderr, "INFRASTRUCTURE-ERROR: race child exited %d:\n%s\n", rc, outb[max(0, len(outb)-3000):])
		os.Exit(2)
	}
	path := "-"
	if *flagReplay != "" {
		os.MkdirAll(*flagReplay, 0o755)
		path = filepath.Join(*flagReplay, fmt.Sprintf("%s_race_%s_%d.replay", *flagProp, *flagTier, *flagSeed))
		var b bytes.Buffer
		fmt.Fprintf(&b, "# property=%s kind=race tier=%s seed=%d\n# replay: build harness/cmd/race with -race -tags verif and run it with -tier %s -seed %d\n", *flagProp, *flagTier, *flagSeed, *flagTier, *flagSeed)
		for _, p := range res.Problems[:min(len(res.Problems), 20)] {
			fmt.Fprintf(&b, "# %s.%s s=%s t=%s: %s\n", p.Pkg, p.Fn, p.S, p.T, p.What)
		}
		b.Write(outb[:min(len(outb), 1<<15)])
		os.WriteFile(path, b.Bytes(), 0o644)
	}
	if race {
		fmt.Println("DISAGREEMENT the race detector reported a data race")
	}
	for _, p := range res.Problems[:min(len(res.Problems), 3)] {
		fmt.Printf("DISAGREEMENT %s.%s: %s\n", p.Pkg, p.Fn, p.What)
	}
	fmt.Printf("VIOLATION property=%s replay=%s\n", *flagProp, path)
	os.Exit(1)
}
