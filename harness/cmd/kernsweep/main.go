// kernsweep ties the block model of the amd64 kernels (C13) to the real assembly: a guard-page
// differential sweep.  The argument is placed flush against a PROT_NONE page on the right, then on
// the left, then at interior offsets (all 64 alignments); the bytes around it inside the mapped
// window are poisoned with the needle; results are compared with the scalar definition, and the argument and the 64 bytes either side of it must be unchanged
// after the call (got = -98 / -97 in a report: the kernel wrote to memory).  A load
// that crosses into the guard page faults, which SetPanicOnFault turns into a recoverable panic.
package main

import (
	"encoding/json"
	"flag"
	"fmt"
	"os"
	"path/filepath"
	"runtime"
	"runtime/debug"
	"strings"
	"sync"
	"syscall"
	"time"
	"unsafe"

	"golang.org/x/sys/cpu"

	"github.com/charlievieth/strcase"
	"github.com/charlievieth/strcase/bytcase"
	"github.com/charlievieth/strcase/verifhooks"
)

var (
	flagTier   = flag.String("tier", "quick", "")
	flagSeed   = flag.Int64("seed", 1, "")
	flagOut    = flag.String("out", "", "")
	flagReplay = flag.String("replay", "", "")
	flagProp   = flag.String("prop", "C13", "")
	flagAsmOps = flag.String("asmops", "", "write a sample of (kernel body, flag, page offset, data, needle, result) cases for the instruction-level model")
)

// sampled cases for the Lean interpreter of the kernel bodies (tools: driver op `asm`)
var (
	asmMu    sync.Mutex
	asmLines []string
	asmSeen  = map[[5]int]bool{}
	asmPer   = map[[3]int]int{} // cases kept per (body, flag, length)
	asmCap   = 12
)

// entryOf names the assembly entry point (TEXT symbol) a direct kernel call enters
func entryOf(k kernel) string {
	switch k.kind {
	case 0:
		return "IndexByte"
	case 1:
		return "Count"
	}
	return "IndexByteNonASCII"
}

var curAVX2, curPOPCNT bool

const page = 4096
const mid = 3 // accessible pages between the two guard pages

func isAlpha(c byte) bool { return 'A' <= c && c <= 'Z' || 'a' <= c && c <= 'z' }
func eqFold(c, b byte) bool {
	return b == c || (isAlpha(c) && b|0x20 == c|0x20)
}
func refIndex(s []byte, c byte) int {
	for i, b := range s {
		if eqFold(c, b) {
			return i
		}
	}
	return -1
}
func refCount(s []byte, c byte) int {
	n := 0
	for _, b := range s {
		if eqFold(c, b) {
			n++
		}
	}
	return n
}
func refNonASCII(s []byte) int {
	for i, b := range s {
		if b >= 0x80 {
			return i
		}
	}
	return -1
}

type kernel struct {
	name   string
	kind   int // 0 index, 1 count, 2 nonascii
	call   func(s []byte, c byte) int
	direct bool // the call enters an assembly wrapper directly (no Go code in between)
}

func (k kernel) kindBody(c byte) int {
	if isAlpha(c) {
		return k.kind*2 + 1
	}
	return k.kind * 2
}

func b2i(b bool) int {
	if b {
		return 1
	}
	return 0
}

func str(b []byte) string { return unsafe.String(unsafe.SliceData(b), len(b)) }

var kernels = []kernel{
	{"bytealg.IndexByte", 0, func(s []byte, c byte) int { return verifhooks.IndexByte(s, c) }, true},
	{"bytealg.IndexByteString", 0, func(s []byte, c byte) int { return verifhooks.IndexByteString(str(s), c) }, false},
	{"bytealg.Count", 1, func(s []byte, c byte) int { return verifhooks.Count(s, c) }, true},
	{"bytealg.CountString", 1, func(s []byte, c byte) int { return verifhooks.CountString(str(s), c) }, false},
	{"bytealg.IndexNonASCII", 2, func(s []byte, c byte) int { return verifhooks.IndexNonASCII(str(s)) }, false},
	{"bytealg.IndexByteNonASCII", 2, func(s []byte, c byte) int { return verifhooks.IndexByteNonASCII(s) }, true},
	{"strcase.IndexByteASCII", 0, func(s []byte, c byte) int { return strcase.IndexByteASCII(str(s), c) }, false},
	{"bytcase.IndexByteASCII", 0, func(s []byte, c byte) int { return bytcase.IndexByteASCII(s, c) }, false},
	{"strcase.IndexNonASCII", 2, func(s []byte, c byte) int { return strcase.IndexNonASCII(str(s)) }, false},
	{"bytcase.IndexNonASCII", 2, func(s []byte, c byte) int { return bytcase.IndexNonASCII(s) }, false},
}

type viol struct {
	AVX2      bool
	POPCNT    bool
	Kernel    string
	Len, Off  int
	Placement string
	Needle    byte
	Data      string
	Got, Want int
	Fault     bool
}

var (
	mu       sync.Mutex
	viols    []viol
	evals    int
	distinct = map[[4]int]bool{}
)

func safeCall(k kernel, s []byte, c byte) (r int, fault bool) {
	defer func() {
		if e := recover(); e != nil {
			r, fault = -99, true
		}
	}()
	return k.call(s, c), false
}

func sweep(k kernel, maxLen int) {
	mem, err := syscall.Mmap(-1, 0, (mid+2)*page, syscall.PROT_READ|syscall.PROT_WRITE, syscall.MAP_ANON|syscall.MAP_PRIVATE)
	if err != nil {
		fmt.Fprintf(os.Stderr, "INFRASTRUCTURE-ERROR: mmap: %v\n", err)
		os.Exit(2)
	}
	if err := syscall.Mprotect(mem[:page], syscall.PROT_NONE); err != nil {
		fmt.Fprintf(os.Stderr, "INFRASTRUCTURE-ERROR: mprotect: %v\n", err)
		os.Exit(2)
	}
	if err := syscall.Mprotect(mem[(mid+1)*page:], syscall.PROT_NONE); err != nil {
		fmt.Fprintf(os.Stderr, "INFRASTRUCTURE-ERROR: mprotect: %v\n", err)
		os.Exit(2)
	}
	win := mem[page : (mid+1)*page]
	curPoison := byte(0)
	first := true
	_ = first
	lev := 0
	ldist := map[[4]int]bool{}
	defer func() {
		mu.Lock()
		evals += lev
		for k := range ldist {
			distinct[k] = true
		}
		mu.Unlock()
		syscall.Munmap(mem)
	}()
	for i := range win {
		win[i] = 0
	}
	// one test: place `data` at window offset `o`, poison the rest of the window with `poison`
	test := func(k kernel, o int, data []byte, c byte, poison byte, placement string) {
		if poison != curPoison {
			for i := range win {
				win[i] = poison
			}
			curPoison = poison
		}
		s := win[o : o+len(data) : o+len(data)]
		copy(s, data)
		defer func() {
			for i := range s {
				s[i] = poison
			}
		}()
		var want int
		switch k.kind {
		case 0:
			want = refIndex(data, c)
		case 1:
			want = refCount(data, c)
		default:
			want = refNonASCII(data)
		}
		got, fault := safeCall(k, s, c)
		// the kernels must not write: the argument and the bytes around it are as before the call
		if !fault {
			for i := range s {
				if s[i] != data[i] {
					got, fault = -98, true
					break
				}
			}
			for d := 1; d <= 64 && !fault; d++ {
				if o-d >= 0 && win[o-d] != poison || o+len(data)+d-1 < len(win) && win[o+len(data)+d-1] != poison {
					got, fault = -97, true
				}
			}
		}
		lev++
		ldist[[4]int{len(data), o & 63, int(c), k.kind}] = true
		if *flagAsmOps != "" && k.direct && !fault && len(data) <= 200 && curPOPCNT {
			a := int(uintptr(unsafe.Pointer(unsafe.SliceData(win)))&(page-1)) + o
			key := [5]int{k.kindBody(c), len(data), a % page, b2i(curAVX2), want}
			asmMu.Lock()
			bk := [3]int{key[0], key[3], key[1]}
			h := uint32(key[1]*7919+key[2]*104729+key[4]*1299709+key[0]*31) * 2654435761
			if !asmSeen[key] && asmPer[bk] < asmCap && (h>>16)%5 == 0 {
				asmSeen[key] = true
				asmPer[bk]++
				hx := "-"
				if len(data) > 0 {
					hx = fmt.Sprintf("%x", data)
				}
				asmLines = append(asmLines, fmt.Sprintf("asm %s %d %d %d %s %d %d", entryOf(k), b2i(curAVX2), a%page, poison, hx, c, got))
			}
			asmMu.Unlock()
		}
		if fault || got != want {
			mu.Lock()
			if len(viols) < 50 {
				d := data
				if len(d) > 96 {
					d = d[:96]
				}
				viols = append(viols, viol{curAVX2, curPOPCNT, k.name, len(data), o, placement, c, fmt.Sprintf("%x", d), got, want, fault})
			}
			mu.Unlock()
		}
	}
	buf := make([]byte, maxLen+64)
	{
		needles := []byte{'k', 'K', '1', 0xC5, 0}
		if k.kind == 2 {
			needles = []byte{0xFF}
		}
		for L := 0; L <= maxLen; L++ {
			// fewer needles on long lengths in the quick tier keep it within seconds
			for ni, c := range needles {
				if L > 130 && ni > 1 && *flagTier == "quick" {
					continue
				}
				fill := byte('x')
				poison := c
				if k.kind == 2 {
					fill, poison = 'x', 0xFF
				} else if isAlpha(c) {
					poison = c ^ 0x20 // the other case must not be seen outside s either
				}
				data := buf[:L]
				for i := range data {
					data[i] = fill
				}
				placements := []struct {
					o    int
					name string
				}{{len(win) - L, "flush-right"}, {0, "flush-left"}}
				if L <= 130 || L%37 == 0 {
					for a := 1; a < 64; a += 1 + L/40 {
						placements = append(placements, struct {
							o    int
							name string
						}{page + a, "interior"})
					}
				}
				// positions of a single match: first/last 70
				var pos []int
				for p := 0; p < L && p < 70; p++ {
					pos = append(pos, p)
				}
				for p := L - 70; p < L; p++ {
					if p >= 70 {
						pos = append(pos, p)
					}
				}
				for _, pl := range placements {
					if pl.o < 0 || pl.o+L > len(win) {
						continue
					}
					test(k, pl.o, data, c, poison, pl.name) // no match
					step := 1
					if pl.name == "interior" {
						step = 7
					}
					for pi := 0; pi < len(pos); pi += step {
						p := pos[pi]
						m := c
						if isAlpha(c) && (p+L)%2 == 0 {
							m = c ^ 0x20
						}
						if k.kind == 2 {
							m = 0x80 + byte(p%0x80)
						}
						data[p] = m
						test(k, pl.o, data, c, poison, pl.name)
						// a second match after it (count / first-match precedence)
						if q := L - 1 - (p % 5); q > p {
							old := data[q]
							data[q] = m
							test(k, pl.o, data, c, poison, pl.name)
							data[q] = old
						}
						data[p] = fill
					}
				}
			}
		}
		// all 256 x 256 (needle, data byte) pairs on one length per code path
		if k.kind != 2 {
			for _, L := range []int{1, 7, 15, 16, 31, 33, 64, 100} {
				for c := 0; c < 256; c++ {
					data := buf[:L]
					for d := 0; d < 256; d++ {
						if *flagTier == "quick" && L != 15 && L != 33 && (c+d)%5 != 0 {
							continue
						}
						for i := range data {
							data[i] = byte(d) ^ 0xFF
							if eqFold(byte(c), data[i]) {
								data[i] = byte(d) ^ 0x55
							}
						}
						data[L-1-(d%L)] = byte(d)
						test(k, len(win)-L, data, byte(c), byte(d)^0xFF, "flush-right")
					}
				}
			}
		}
	}
}

func main() {
	flag.Parse()
	start := time.Now()
	debug.SetPanicOnFault(true)
	maxLen := 300
	if *flagTier == "thorough" {
		maxLen = 4352
		asmCap = 100
	}
	// the values of the CPU feature flags the kernels test: as detected; AVX2 forced off (SSE loops at every length);
	// POPCNT forced off (the counting wrappers leave to the Go fallback)
	type setting struct{ AVX2, POPCNT bool }
	detected := setting{cpu.X86.HasAVX2, cpu.X86.HasPOPCNT}
	settings := []setting{detected}
	if detected.AVX2 {
		settings = append(settings, setting{false, detected.POPCNT})
	}
	if detected.POPCNT {
		settings = append(settings, setting{detected.AVX2, false})
	}
	for _, st := range settings {
		cpu.X86.HasAVX2, cpu.X86.HasPOPCNT = st.AVX2, st.POPCNT
		curAVX2, curPOPCNT = st.AVX2, st.POPCNT
		var wg sync.WaitGroup
		for _, k := range kernels {
			if !st.POPCNT && k.kind != 1 {
				continue // only the counting entry points test POPCNT
			}
			wg.Add(1)
			go func(k kernel) {
				defer wg.Done()
				runtime.LockOSThread()
				debug.SetPanicOnFault(true)
				sweep(k, maxLen)
			}(k)
		}
		wg.Wait()
	}
	cpu.X86.HasAVX2, cpu.X86.HasPOPCNT = detected.AVX2, detected.POPCNT
	if *flagAsmOps != "" {
		os.WriteFile(*flagAsmOps, []byte(strings.Join(asmLines, "\n")+"\n"), 0o644)
	}
	cov := map[string]any{
		"evaluations":         evals,
		"distinct_nontrivial": len(distinct),
		"rule":                fmt.Sprintf("CPU settings (as detected; AVX2 cleared; POPCNT cleared: counting entry points) x 10 kernel entry points x lengths 0..%d x placements (flush against a PROT_NONE page right/left, interior alignments) x match positions (none, each of the first/last 70, plus a second match) x needles; all 256x256 (needle,data) pairs on 8 lengths; distinct = (len, alignment mod 64, needle, kind)", maxLen),
		"samples":             []any{map[string]any{"kernel": "bytealg.IndexByte", "len": 33, "placement": "flush-right", "needle": "k", "match_at": 32}},
		"max_len":             maxLen,
		"cpu_settings":       settings,
		"asm_model_cases":     len(asmLines),
		"violations":          len(viols),
	}
	if len(viols) > 0 {
		cov["first_violations"] = viols[:min(len(viols), 10)]
	}
	if *flagOut != "" {
		data, _ := json.MarshalIndent(map[string]any{"coverage": cov, "wall_s": time.Since(start).Seconds()}, "", " ")
		os.WriteFile(*flagOut, data, 0o644)
	}
	if len(viols) == 0 {
		fmt.Printf("kernsweep: %d kernel calls (%d distinct shapes), all equal to the scalar definition, no faulting load\n", evals, len(distinct))
		return
	}
	path := "-"
	if *flagReplay != "" {
		os.MkdirAll(*flagReplay, 0o755)
		path = filepath.Join(*flagReplay, fmt.Sprintf("%s_kernsweep_%s_%d.replay", *flagProp, *flagTier, *flagSeed))
		data, _ := json.MarshalIndent(viols, "", " ")
		os.WriteFile(path, append([]byte("# property="+*flagProp+" kind=kernel (kernel, len, window offset, needle, data hex, got, want, fault)\n"), data...), 0o644)
	}
	v := viols[0]
	fmt.Printf("DISAGREEMENT avx2=%v popcnt=%v %s len=%d off=%d %s needle=%#x got=%d want=%d fault=%v\n", v.AVX2, v.POPCNT, v.Kernel, v.Len, v.Off, v.Placement, v.Needle, v.Got, v.Want, v.Fault)
	fmt.Printf("VIOLATION property=%s replay=%s\n", *flagProp, path)
	os.Exit(1)
}
