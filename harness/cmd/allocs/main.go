// allocs validates the C05 fact model at run time: it measures runtime.MemStats.Mallocs around
// every exported function of both packages on argument shapes that drive the search into each of
// its strategies (short/long haystacks, multi-kilobyte needles, ill-formed input, decoys), and
// checks that returned strings/slices are views of the first argument.
//
//	allocs -tier quick -seed 1 -out cov.json -replay dir -prop C05
package main

import (
	"encoding/hex"
	"encoding/json"
	"flag"
	"fmt"
	"os"
	"path/filepath"
	"runtime"
	"runtime/debug"
	"strings"
	"time"
	"unsafe"

	"verif/harness/internal/api"
	"verif/harness/internal/gen"
)

var (
	flagTier   = flag.String("tier", "quick", "")
	flagSeed   = flag.Int64("seed", 1, "")
	flagOut    = flag.String("out", "", "")
	flagReplay = flag.String("replay", "", "")
	flagProp   = flag.String("prop", "C05", "")
)

// mallocs of `runs` calls of f(a), minimum over 3 repeats (background runtime activity can only
// add to a count, never hide an allocation the call itself performs every time)
func mallocs(f func(*api.Args), a *api.Args, runs int) uint64 {
	var m0, m1 runtime.MemStats
	f(a) // warm up
	best := ^uint64(0)
	for rep := 0; rep < 3; rep++ {
		runtime.ReadMemStats(&m0)
		for i := 0; i < runs; i++ {
			f(a)
		}
		runtime.ReadMemStats(&m1)
		d := m1.Mallocs - m0.Mallocs
		if d < best {
			best = d
		}
		if best == 0 {
			break
		}
	}
	return best
}

func within(base, sub unsafe.Pointer, nb, ns int) bool {
	if ns == 0 {
		return true
	}
	o := uintptr(sub) - uintptr(base)
	return uintptr(sub) >= uintptr(base) && int(o)+ns <= nb
}

func viewsOK(fn api.Fn, a *api.Args) bool {
	if fn.Ret != "s" && fn.Ret != "ss" && fn.Ret != "sb" {
		return true
	}
	if fn.Byt {
		b := unsafe.Pointer(unsafe.SliceData(a.SB))
		ok := within(b, unsafe.Pointer(unsafe.SliceData(a.RB1)), len(a.SB), len(a.RB1))
		if fn.Ret == "ss" {
			ok = ok && within(b, unsafe.Pointer(unsafe.SliceData(a.RB2)), len(a.SB), len(a.RB2))
		}
		return ok
	}
	b := unsafe.Pointer(unsafe.StringData(a.S))
	ok := within(b, unsafe.Pointer(unsafe.StringData(a.RS1)), len(a.S), len(a.RS1))
	if fn.Ret == "ss" {
		ok = ok && within(b, unsafe.Pointer(unsafe.StringData(a.RS2)), len(a.S), len(a.RS2))
	}
	return ok
}

type viol struct {
	Fn, Pkg, S, T string
	R             rune
	C             byte
	Mallocs       uint64
	What          string
}

func main() {
	flag.Parse()
	start := time.Now()
	if len(api.Values) != len(api.Table) {
		panic("api table out of sync")
	}
	runtime.GOMAXPROCS(1)
	debug.SetGCPercent(-1)
	scale := 1
	if *flagTier == "thorough" {
		scale = 6
	}
	g := gen.New(*flagSeed*31+5, false, scale)
	var pairs []gen.Pair
	add := func(p gen.Pair) { pairs = append(pairs, p) }
	g.Embedded(150*scale, add)
	g.Random(100*scale, add)
	g.LongNeedle(60*scale, add)
	// multi-kilobyte needles and haystacks, ill-formed tails, decoys that force the Rabin-Karp cut-over
	for _, n := range []int{200, 1 << 10, 4 << 10, 32 << 10, 128 << 10} {
		if scale == 1 && n > 32<<10 {
			continue
		}
		big := g.Pad(n, 2, []byte("aK"))
		needle := append([]byte{}, big[n/3:n/3+n/4]...)
		add(gen.Pair{S: big, T: g.Recase(needle)})
		add(gen.Pair{S: big, T: append(g.Recase(needle), 0xff)})
		add(gen.Pair{S: needle, T: big})
		dec := make([]byte, 0, n)
		for len(dec) < n {
			dec = append(dec, "ab"...)
		}
		add(gen.Pair{S: dec, T: []byte("abababababac")})
		add(gen.Pair{S: append(dec, "\xe4\xb8\x96K"...), T: []byte("\xe4\xb8\x96\xe2\x84\xaa")})
	}
	// width-mismatch corners: the needle spells every code point of the haystack with a wider fold partner (Kelvin sign
	// for k/K, long s for s/S, encoded U+FFFD for an ill-formed byte), so it is up to three times as long as the text it
	// matches: the code takes its length-gate branches (containsKelvin and friends) with needles beyond any small
	// stack buffer
	for n := 1; n <= 48; n++ {
		if scale == 1 && n > 16 && n%4 != 0 {
			continue
		}
		for _, w := range [][2]string{{"k", "\u212a"}, {"K", "\u212a"}, {"s", "\u017f"}, {"\xff", "\ufffd"}, {"\xc0", "\ufffd"}} {
			narrow, wide := strings.Repeat(w[0], n), strings.Repeat(w[1], n)
			add(gen.Pair{S: []byte(narrow), T: []byte(wide)})
			add(gen.Pair{S: []byte(wide), T: []byte(narrow)})
			add(gen.Pair{S: []byte("ab" + narrow), T: []byte(wide)})
			add(gen.Pair{S: []byte(narrow + "yz"), T: []byte(wide)})
			add(gen.Pair{S: []byte(narrow), T: []byte(wide + w[1])})
		}
	}
	// set-style second arguments with many fold-distinct members (IndexAny / LastIndexAny / ContainsAny and whatever else treats
	// its second argument as a set): 1..64 distinct letters, with and without a non-ASCII member (which rules out the ASCII-set
	// fast path), against haystacks shorter and longer than twice the set, with and without a hit: any per-member bookkeeping
	// beyond a small stack buffer shows as a heap allocation
	letters := []rune("abcdefghijlmnopqrtuvwxyz0123456789!#$%&()*+,-./:;<=>?@[]^_{|}~")
	for _, n := range []int{1, 2, 7, 8, 9, 15, 16, 17, 18, 31, 32, 33, 48, 64} {
		if n > len(letters) {
			n = len(letters)
		}
		for _, extra := range []string{"", "é", "\u212a", "世", "\xff"} {
			set := string(letters[:n]) + extra
			for _, hl := range []int{1, n, 2*len(set) + 1, 3*len(set) + 7, 200} {
				hay := strings.Repeat("\t", hl)
				add(gen.Pair{S: []byte(hay), T: []byte(set)})
				add(gen.Pair{S: []byte(hay + "É"), T: []byte(set)})
				add(gen.Pair{S: []byte(hay + string(letters[n-1])), T: []byte(set)})
			}
		}
	}
	runs := 20
	evals, nontriv := 0, 0
	distinct := map[string]bool{}
	var viols []viol
	var samples []any
	perFn := map[string]int{}
	for pi, p := range pairs {
		a := &api.Args{S: string(p.S), T: string(p.T), SB: p.S, TB: p.T}
		if len(p.T) > 0 {
			a.C = p.T[0]
			a.R = []rune(string(p.T))[0]
		}
		if pi%7 == 0 {
			a.R = g.RandRune()
		}
		for _, fn := range api.Table {
			pkg := "strcase"
			if fn.Byt {
				pkg = "bytcase"
			}
			n := mallocs(fn.Call, a, runs)
			evals++
			perFn[pkg+"."+fn.Name]++
			key := fmt.Sprintf("%s.%s/%d/%d", pkg, fn.Name, len(p.S), len(p.T))
			if !distinct[key] {
				distinct[key] = true
				if len(p.S) > 0 && len(p.T) > 0 {
					nontriv++
				}
			}
			if n >= uint64(runs) {
				viols = append(viols, viol{fn.Name, pkg, hex.EncodeToString(p.S), hex.EncodeToString(p.T), a.R, a.C, n, "heap allocation on every call"})
			}
			if !viewsOK(fn, a) {
				viols = append(viols, viol{fn.Name, pkg, hex.EncodeToString(p.S), hex.EncodeToString(p.T), a.R, a.C, n, "returned value is not a view of the first argument"})
			}
			if len(samples) < 6 && pi%97 == 3 && fn.Name == "Index" {
				samples = append(samples, map[string]any{"fn": pkg + "." + fn.Name, "len_s": len(p.S), "len_t": len(p.T), "mallocs_per_20_calls": n})
			}
		}
	}
	cov := map[string]any{
		"evaluations":         evals,
		"distinct_nontrivial": nontriv,
		"rule":                "every exported function x argument tuples from the embedded/random/long-needle families plus multi-kilobyte needles/haystacks and the width-mismatch corners (needle = the haystack respelled with Kelvin sign / long s / U+FFFD, 1..48 code points) and set-style second arguments with 1..64 fold-distinct members; Mallocs delta of 20 calls (min of 3 repeats, GOMAXPROCS=1, GC off); distinct = (function, len s, len t), non-trivial = both arguments non-empty",
		"samples":             samples,
		"functions":           perFn,
		"max_len": func() int {
			m := 0
			for _, p := range pairs {
				if len(p.S) > m {
					m = len(p.S)
				}
			}
			return m
		}(),
		"violations": len(viols),
	}
	if len(viols) > 0 {
		cov["first_violations"] = viols[:min(len(viols), 10)]
	}
	if *flagOut != "" {
		data, _ := json.MarshalIndent(map[string]any{"coverage": cov, "wall_s": time.Since(start).Seconds()}, "", " ")
		os.WriteFile(*flagOut, data, 0o644)
	}
	if len(viols) == 0 {
		fmt.Printf("allocs: %d measurements, 0 allocations, all returned values are views\n", evals)
		return
	}
	path := "-"
	if *flagReplay != "" {
		os.MkdirAll(*flagReplay, 0o755)
		path = filepath.Join(*flagReplay, fmt.Sprintf("%s_allocs_%s_%d.replay", *flagProp, *flagTier, *flagSeed))
		data, _ := json.MarshalIndent(map[string]any{"property": *flagProp, "kind": "allocation", "violations": viols[:min(len(viols), 20)],
			"replay": "harness/cmd/allocs measures runtime.MemStats.Mallocs around 20 calls of Fn(S,T) (hex arguments)"}, "", " ")
		os.WriteFile(path, append([]byte("# property="+*flagProp+" kind=allocation\n"), data...), 0o644)
	}
	v := viols[0]
	fmt.Printf("DISAGREEMENT %s.%s len(s)=%d len(t)=%d: %s (%d mallocs in %d calls)\n", v.Pkg, v.Fn, len(v.S)/2, len(v.T)/2, v.What, v.Mallocs, runs)
	fmt.Printf("VIOLATION property=%s replay=%s\n", *flagProp, path)
	os.Exit(1)
}
