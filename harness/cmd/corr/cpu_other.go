//go:build !(386 || amd64)

package main

func clearCPU(list string) map[string]bool { return map[string]bool{} }

func restoreCPU(was map[string]bool) {}
