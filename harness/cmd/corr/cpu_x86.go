//go:build 386 || amd64

package main

import (
	"fmt"
	"os"
	"strings"

	"golang.org/x/sys/cpu"
)

// clearCPU clears features of golang.org/x/sys/cpu in-process: these are the variables the assembly kernels of
// internal/bytealg test (CMPB ·X86+offset, $1); GODEBUG=cpu.* does not reach them.
func clearCPU(list string) map[string]bool {
	was := map[string]bool{"avx2": cpu.X86.HasAVX2, "popcnt": cpu.X86.HasPOPCNT}
	for _, f := range strings.Split(list, ",") {
		switch strings.TrimSpace(f) {
		case "":
		case "avx2":
			cpu.X86.HasAVX2 = false
		case "popcnt":
			cpu.X86.HasPOPCNT = false
		default:
			fmt.Fprintf(os.Stderr, "INFRASTRUCTURE-ERROR: unknown -cpu feature %q\n", f)
			os.Exit(2)
		}
	}
	return was
}

func restoreCPU(was map[string]bool) {
	cpu.X86.HasAVX2, cpu.X86.HasPOPCNT = was["avx2"], was["popcnt"]
	for _, f := range strings.Split(*flagCPU, ",") {
		switch strings.TrimSpace(f) {
		case "avx2":
			cpu.X86.HasAVX2 = false
		case "popcnt":
			cpu.X86.HasPOPCNT = false
		}
	}
}
