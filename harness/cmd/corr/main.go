// corr is the correspondence check: it generates ops for one property, runs the REAL code
// in-process (I), pipes the same ops to the Lean driver (algorithm model A, specification S),
// and compares.
//
//	corr -prop C01 -tier quick -seed 1 -driver /verif/lean/.lake/build/bin/driver -out corr.json -replay dir
//
// exit 0: no disagreement; exit 1: a disagreement (VIOLATION line printed); exit 2: infrastructure.
package main

import (
	"bufio"
	"bytes"
	"encoding/json"
	"flag"
	"fmt"
	"hash/fnv"
	"os"
	"os/exec"
	"path/filepath"
	"regexp"
	"runtime"
	"sort"
	"strconv"
	"strings"
	"sync"
	"sync/atomic"
	"time"
	"unicode"
	"unicode/utf8"

	"verif/harness/internal/gen"
	"verif/harness/internal/impl"
	"verif/harness/internal/ref"
)

type op struct {
	impl.Op
	Fam    string
	Group  int    // ops of one argument tuple share a group
	Std    string // expected result from the standard library (C02/C20), "" if none
	StdRaw string // the standard library's answer on the raw arguments: oracle for the Lean models of the namesakes
	NoS    bool   // the specification does not apply to this op (outside the property's domain)
}

type res struct {
	I, A, S string
	M       string // model of the standard-library namesake (third driver column), "-" if none
	G       string // the regenerated go/ssa form of the repository's function run by the Lean interpreter (fourth column), "-" if none
}

var cpuWas map[string]bool

var (
	flagProp    = flag.String("prop", "", "property id")
	flagTier    = flag.String("tier", "quick", "quick|thorough")
	flagSeed    = flag.Int64("seed", 1, "PRNG seed")
	flagDriver  = flag.String("driver", "", "path of the Lean driver executable")
	flagOut     = flag.String("out", "", "where to write the coverage JSON")
	flagReplay  = flag.String("replay", "", "directory for replay files")
	flagOps     = flag.String("ops", "", "replay: file of op lines to run instead of generating")
	flagScale   = flag.Int("scale", 0, "override generator scale")
	flagDump    = flag.String("dump", "", "write generated op lines to this file and exit")
	flagNoA     = flag.Bool("noa", false, "ignore the algorithm model (specification only)")
	flagCorpus  = flag.String("corpus", "", "directory of *.ops files (minimised past disagreements) that run first")
	flagAPIOnly = flag.Bool("apionly", false, "tables plan: report only the directed follow-up ops on exported functions (witness search for another property)")
	flagFollow  = flag.String("followfns", "", "comma list: exported functions the table follow-up builds ops for (default: all it knows)")
	flagCPU     = flag.String("cpu", "", "comma list of golang.org/x/sys/cpu features to clear in-process before running: avx2, popcnt (the assembly kernels of internal/bytealg test these variables; GODEBUG=cpu.* only reaches the standard library's internal/cpu)")
)

func infra(format string, a ...any) {
	fmt.Fprintf(os.Stderr, "INFRASTRUCTURE-ERROR: "+format+"\n", a...)
	os.Exit(2)
}

// runShard pipes ops to one driver process and evaluates the real code meanwhile.
func runShard(ops []op, out []res, hangAt *atomic.Int64, base int) error {
	cmd := exec.Command(*flagDriver)
	stdin, err := cmd.StdinPipe()
	if err != nil {
		return err
	}
	stdout, err := cmd.StdoutPipe()
	if err != nil {
		return err
	}
	cmd.Stderr = os.Stderr
	if err := cmd.Start(); err != nil {
		return err
	}
	go func() {
		w := bufio.NewWriterSize(stdin, 1<<16)
		if *flagTier == "thorough" {
			// at the thorough scale the source-level model G (an interpreter) is evaluated on every fourth op
			w.WriteString("gsample 4\n")
		}
		for i := range ops {
			w.WriteString(ops[i].Line())
			w.WriteByte('\n')
		}
		w.Flush()
		stdin.Close()
	}()
	var wg sync.WaitGroup
	wg.Add(1)
	go func() {
		defer wg.Done()
		for i := range ops {
			hangAt.Store(int64(base + i))
			out[i].I = impl.Eval(ops[i].Op)
		}
		hangAt.Store(-1)
	}()
	sc := bufio.NewScanner(stdout)
	sc.Buffer(make([]byte, 1<<20), 1<<24)
	n := 0
	for sc.Scan() {
		if n >= len(ops) {
			return fmt.Errorf("driver produced too many lines")
		}
		line := sc.Text()
		k := strings.IndexByte(line, '\t')
		if k < 0 {
			return fmt.Errorf("driver: malformed answer %q for %q", line, ops[n].Line())
		}
		out[n].A, out[n].S, out[n].M = line[:k], line[k+1:], "-"
		if k2 := strings.IndexByte(out[n].S, '\t'); k2 >= 0 {
			out[n].S, out[n].M = out[n].S[:k2], out[n].S[k2+1:]
		}
		out[n].G = "-"
		if k3 := strings.IndexByte(out[n].M, '\t'); k3 >= 0 {
			out[n].M, out[n].G = out[n].M[:k3], out[n].M[k3+1:]
		}
		n++
	}
	if err := cmd.Wait(); err != nil {
		return fmt.Errorf("driver: %v (after %d of %d ops; next op %q)", err, n, len(ops), opLineAt(ops, n))
	}
	if n != len(ops) {
		return fmt.Errorf("driver answered %d of %d ops; next op %q", n, len(ops), opLineAt(ops, n))
	}
	wg.Wait()
	return nil
}

func opLineAt(ops []op, n int) string {
	if n < len(ops) {
		return ops[n].Line()
	}
	return ""
}

type violation struct {
	Kind string // "I!=S", "I!=A", "I!=std", "std!=M", "identity", "parity", "PANIC", "HANG", "cpu-dependence"
	Op   string
	I    string
	A    string
	S    string
	Std  string `json:",omitempty"`
	Note string `json:",omitempty"`
	Fam  string
}

func main() {
	flag.Parse()
	cpuWas = clearCPU(*flagCPU)
	if *flagProp == "" || *flagDriver == "" {
		infra("usage: corr -prop Cxx -driver path [...]")
	}
	start := time.Now()
	scale := 1
	if *flagTier == "thorough" {
		scale = 8
	}
	if *flagScale > 0 {
		scale = *flagScale
	}
	var ops []op
	if *flagOps != "" {
		ops = readOps(*flagOps)
	} else {
		ops = plan(*flagProp, *flagSeed, scale)
		if *flagCorpus != "" && *flagProp != "tables" {
			files, _ := filepath.Glob(filepath.Join(*flagCorpus, "*.ops"))
			sort.Strings(files)
			var pre []op
			for _, f := range files {
				for _, o := range readOps(f) {
					o.Fam = "corpus"
					o.Group = -1 - len(pre)
					pre = append(pre, o)
				}
			}
			ops = append(pre, ops...)
		}
	}
	if len(ops) == 0 {
		infra("no ops generated for %s", *flagProp)
	}
	if *flagDump != "" {
		f, _ := os.Create(*flagDump)
		w := bufio.NewWriter(f)
		for _, o := range ops {
			fmt.Fprintln(w, o.Line())
		}
		w.Flush()
		f.Close()
		return
	}
	results := make([]res, len(ops))
	workers := runtime.NumCPU()
	if workers > len(ops)/64+1 {
		workers = len(ops)/64 + 1
	}
	chunk := (len(ops) + workers - 1) / workers
	hang := make([]atomic.Int64, workers)
	var wg sync.WaitGroup
	errs := make([]error, workers)
	for w := 0; w < workers; w++ {
		lo, hi := w*chunk, (w+1)*chunk
		if hi > len(ops) {
			hi = len(ops)
		}
		if lo >= hi {
			continue
		}
		hang[w].Store(-1)
		wg.Add(1)
		go func(w, lo, hi int) {
			defer wg.Done()
			errs[w] = runShard(ops[lo:hi], results[lo:hi], &hang[w], lo)
		}(w, lo, hi)
	}
	done := make(chan struct{})
	go func() { wg.Wait(); close(done) }()
	// watchdog: an op of the real code that does not finish within 20 s is a hang
	last := make([]int64, workers)
	since := make([]time.Time, workers)
	var viols []violation
wait:
	for {
		select {
		case <-done:
			break wait
		case <-time.After(time.Second):
			for w := range hang {
				cur := hang[w].Load()
				if cur >= 0 && cur == last[w] {
					if time.Since(since[w]) > 20*time.Second {
						o := ops[cur]
						viols = append(viols, violation{Kind: "HANG", Op: o.Line(), I: "HANG", Fam: o.Fam})
						report(viols, ops, results, start, scale)
						return
					}
				} else {
					last[w] = cur
					since[w] = time.Now()
				}
			}
		}
	}
	for _, e := range errs {
		if e != nil {
			infra("%v", e)
		}
	}
	// ---- compare
	for i := range ops {
		o, r := ops[i], results[i]
		if r.I == "bad-op" || r.A == "bad-op" {
			infra("bad op %q (I=%s A=%s)", o.Line(), r.I, r.A)
		}
		if r.I == "PANIC" {
			viols = append(viols, violation{Kind: "PANIC", Op: o.Line(), I: r.I, A: r.A, S: r.S, Fam: o.Fam})
			continue
		}
		if !o.NoS && r.S != "-" && r.S != r.I {
			viols = append(viols, violation{Kind: "I!=S", Op: o.Line(), I: r.I, A: r.A, S: r.S, Fam: o.Fam})
			continue
		}
		if o.Std != "" && o.Std != r.I {
			viols = append(viols, violation{Kind: "I!=std", Op: o.Line(), I: r.I, A: r.A, S: r.S, Std: o.Std, Fam: o.Fam})
			continue
		}
		if !*flagNoA && r.A != "-" && r.A != r.I {
			viols = append(viols, violation{Kind: "I!=A", Op: o.Line(), I: r.I, A: r.A, S: r.S, Fam: o.Fam})
		}
		// the regenerated source-level model (go/ssa form of the repository's own function, run by the Lean interpreter)
		if !*flagNoA && r.G != "-" && r.G != "" && r.G != r.I {
			viols = append(viols, violation{Kind: "I!=G", Op: o.Line(), I: r.I, A: r.A, S: r.S, Note: "source-model=" + r.G, Fam: o.Fam})
		}
		// the Lean model of the standard-library namesake against the real standard library
		if !*flagNoA && o.StdRaw != "" && r.M != "-" && r.M != "" && r.M != o.StdRaw {
			viols = append(viols, violation{Kind: "std!=M", Op: o.Line(), I: r.I, A: r.A, S: r.S, Std: o.StdRaw, Note: "std-model=" + r.M, Fam: o.Fam})
		}
	}
	// replaying a witness of the directed table follow-up: the independent reference decides it again
	if *flagOps != "" {
		for i, o := range ops {
			if o.Fam != "" && o.Fam != "replay" {
				continue
			}
			r := results[i]
			ref.Unicode = true
			want := ref.Eval(o.Op)
			ref.Unicode = false
			bad := want != "" && want != "-" && want != r.I
			if o.Fn == "Compare" {
				bad = want != "" && want != "-" && (want == "0") != (r.I == "0")
			}
			if bad && r.I != "PANIC" && (r.S == "-" || r.S == r.I) {
				viols = append(viols, violation{Kind: "I!=ref", Op: o.Line(), I: r.I, A: r.A, S: r.S, Fam: o.Fam,
					Note: "naive reference over unicode.SimpleFold orbits says " + want})
			}
		}
	}
	viols = append(viols, cpuPasses(ops, results)...)
	viols = append(viols, groupChecks(*flagProp, ops, results)...)
	// a table function disagrees with its model: look for an input on which an exported function goes wrong
	if more := tableFollowUp(ops, results, viols); len(more) > 0 {
		out := make([]res, len(more))
		var h atomic.Int64
		h.Store(-1)
		if err := runShard(more, out, &h, 0); err != nil {
			infra("%v", err)
		}
		for i, o := range more {
			r := out[i]
			// the specification folds through the regenerated table data, so it cannot judge a change of that data:
			// an independent naive reference over unicode.SimpleFold orbits decides these ops as well
			ref.Unicode = true
			want := ref.Eval(o.Op)
			ref.Unicode = false
			refBad := want != "" && want != "-" && want != r.I
			if o.Fn == "Compare" {
				refBad = want != "" && want != "-" && (want == "0") != (r.I == "0")
			}
			if refBad && r.I != "PANIC" && (r.S == "-" || r.S == r.I) {
				viols = append(viols, violation{Kind: "I!=ref", Op: o.Line(), I: r.I, A: r.A, S: r.S, Fam: o.Fam,
					Note: "naive reference over unicode.SimpleFold orbits (harness/internal/ref, Unicode mode) says " + want + "; the Lean specification reads the same regenerated fold table as the code"})
				continue
			}
			if r.I == "PANIC" {
				viols = append(viols, violation{Kind: "PANIC", Op: o.Line(), I: r.I, A: r.A, S: r.S, Fam: o.Fam})
			} else if r.S != "-" && r.S != r.I {
				viols = append(viols, violation{Kind: "I!=S", Op: o.Line(), I: r.I, A: r.A, S: r.S, Fam: o.Fam})
			}
		}
		ops = append(ops, more...)
		results = append(results, out...)
	}
	if *flagAPIOnly {
		var keep []violation
		for _, v := range viols {
			if v.Fam == "table-follow-up" && v.Kind != "I!=A" {
				keep = append(keep, v)
			}
		}
		viols = keep
	}
	report(viols, ops, results, start, scale)
}

// cpuPasses re-evaluates every op on the real code with one golang.org/x/sys/cpu feature cleared at a time (the variables
// the assembly kernels test: AVX2 -> the SSE loops at every length; POPCNT -> the Go counting fallback) and compares with
// the first evaluation.  The specification's answer does not depend on the CPU, so a difference is a concrete violation.
var cpuPassInfo = map[string]int{}

func cpuPasses(ops []op, results []res) []violation {
	if *flagProp == "tables" {
		return nil
	}
	var out []violation
	for _, feat := range []string{"avx2", "popcnt"} {
		if !cpuWas[feat] || strings.Contains(*flagCPU, feat) {
			continue // not available on this machine, or already cleared for the whole run
		}
		clearCPU(feat)
		alt := make([]string, len(ops))
		var wg sync.WaitGroup
		workers := runtime.NumCPU()
		chunk := (len(ops) + workers - 1) / workers
		for w := 0; w < workers; w++ {
			lo, hi := w*chunk, (w+1)*chunk
			if hi > len(ops) {
				hi = len(ops)
			}
			if lo >= hi {
				continue
			}
			wg.Add(1)
			go func(lo, hi int) {
				defer wg.Done()
				for i := lo; i < hi; i++ {
					alt[i] = impl.Eval(ops[i].Op)
				}
			}(lo, hi)
		}
		wg.Wait()
		restoreCPU(cpuWas)
		cpuPassInfo[feat] = len(ops)
		for i, o := range ops {
			if alt[i] == results[i].I {
				continue
			}
			r := results[i]
			kind := "cpu-dependence"
			if alt[i] == "PANIC" {
				kind = "PANIC"
			} else if !o.NoS && r.S != "-" && r.S != alt[i] {
				kind = "I!=S"
			}
			out = append(out, violation{Kind: kind, Op: o.Line(), I: alt[i], A: r.A, S: r.S, Fam: o.Fam,
				Note: fmt.Sprintf("with golang.org/x/sys/cpu feature %s cleared (result with the detected features: %s)", feat, r.I)})
		}
	}
	return out
}

func wanted(fn string) bool {
	if *flagFollow == "" {
		return true
	}
	for _, f := range strings.Split(*flagFollow, ",") {
		if f == fn {
			return true
		}
	}
	return false
}

// tableFollowUp: for every code point on which a table function of the real code disagrees with the model,
// pair it with every number either side returned (candidate fold partners) and build searches and comparisons
// in which that wrong (or missing) equivalence decides the result.  The specification then says who is right.
func tableFollowUp(ops []op, results []res, viols []violation) []op {
	isTable := map[string]bool{"CaseFold": true, "FoldMap": true, "FoldMapExcludingUpperLower": true, "ToUpperLower": true}
	type pr struct{ r, v rune }
	seen := map[pr]bool{}
	var pairs []pr
	num := regexp.MustCompile(`-?\d+`)
	for i, o := range ops {
		// a table function of the real code disagrees with its model (lookup code changed) or with the Unicode-derived
		// specification (table data changed: model and code read the same regenerated data and still agree)
		offA := results[i].A != "-" && results[i].A != "" && results[i].A != results[i].I
		offS := !o.NoS && results[i].S != "-" && results[i].S != "" && results[i].S != results[i].I
		if !isTable[o.Fn] || !(offA || offS) || len(o.Args) == 0 {
			continue
		}
		r64, err := strconv.ParseInt(o.Args[0], 10, 64)
		if err != nil || r64 < 0 || r64 > unicode.MaxRune || !utf8.ValidRune(rune(r64)) {
			continue
		}
		for _, tok := range num.FindAllString(results[i].I+" "+results[i].A+" "+results[i].S, -1) {
			v, err := strconv.ParseInt(tok, 10, 64)
			if err != nil || v <= 1 || v > unicode.MaxRune || !utf8.ValidRune(rune(v)) || v == r64 {
				continue
			}
			k := pr{rune(r64), rune(v)}
			if !seen[k] && len(pairs) < 48 {
				seen[k] = true
				pairs = append(pairs, k)
			}
		}
	}
	// table *data* changes leave code and model in agreement (both read the regenerated data): compare the classes of
	// CaseFold with the orbits of unicode.SimpleFold directly
	cf := map[rune]rune{}
	for i, o := range ops {
		if o.Fn == "CaseFold" && len(o.Args) > 0 {
			r64, e1 := strconv.ParseInt(o.Args[0], 10, 64)
			v64, e2 := strconv.ParseInt(results[i].I, 10, 64)
			if e1 == nil && e2 == nil && r64 >= 0 && r64 <= unicode.MaxRune {
				cf[rune(r64)] = rune(v64)
			}
		}
	}
	addPair := func(a, b rune) {
		k := pr{a, b}
		if a != b && utf8.ValidRune(a) && utf8.ValidRune(b) && !seen[k] && len(pairs) < 48 {
			seen[k] = true
			pairs = append(pairs, k)
		}
	}
	for r, v := range cf {
		inOrbit := v == r
		for x := unicode.SimpleFold(r); x != r; x = unicode.SimpleFold(x) {
			if x == v {
				inOrbit = true
			}
			if w, ok := cf[x]; ok && w != v {
				addPair(r, x) // two members of one orbit fold differently
			}
		}
		if !inOrbit {
			addPair(r, v) // folds to a code point outside its orbit
		}
	}
	sort.Slice(pairs, func(i, j int) bool {
		if pairs[i].r != pairs[j].r {
			return pairs[i].r < pairs[j].r
		}
		return pairs[i].v < pairs[j].v
	})
	var out []op
	sfx := impl.CfgSuffix()
	add := func(fn, pkg string, args ...string) {
		out = append(out, op{Op: impl.Op{Fn: fn, Cfg: pkg + sfx, Args: args}, Fam: "table-follow-up", Group: -1})
	}
	for _, k := range pairs {
		for _, sw := range []bool{false, true} {
			a, b := string(k.r), string(k.v)
			if sw {
				a, b = b, a
			}
			hays := []string{b, "__" + b + "bc", "_a" + b + "c", "xxxxxxxxxxxxxxxxx" + b + "bc", b + b}
			needles := []string{a, a + "bc", "a" + a + "c", a + "bc", a + a}
			for _, pkg := range []string{"s", "b"} {
				for j := range hays {
					h, n := impl.Hex([]byte(hays[j])), impl.Hex([]byte(needles[j]))
					for _, fn := range []string{"Index", "LastIndex", "Contains", "Count", "EqualFold", "Compare", "HasPrefix", "HasSuffix", "IndexAny", "LastIndexAny"} {
						if wanted(fn) {
							add(fn, pkg, h, n)
						}
					}
					r, _ := utf8.DecodeRuneInString(a)
					if wanted("IndexRune") {
						add("IndexRune", pkg, h, strconv.Itoa(int(r)))
					}
				}
			}
		}
	}
	return out
}

func readOps(path string) []op {
	data, err := os.ReadFile(path)
	if err != nil {
		infra("%v", err)
	}
	var ops []op
	for _, line := range strings.Split(string(data), "\n") {
		line = strings.TrimSpace(line)
		if line == "" || strings.HasPrefix(line, "#") {
			continue
		}
		f := strings.Fields(line)
		if len(f) < 2 {
			continue
		}
		ops = append(ops, op{Op: impl.Op{Fn: f[0], Cfg: f[1], Args: f[2:]}, Fam: "replay", Group: len(ops)})
	}
	return ops
}

func hashStr(s string) uint64 {
	h := fnv.New64a()
	h.Write([]byte(s))
	return h.Sum64()
}

func trivial(r string) bool {
	switch r {
	case "-1", "0", "", "(e)", "0,0", "-1,1":
		return true
	}
	return false
}

func report(viols []violation, ops []op, results []res, start time.Time, scale int) {
	// coverage numbers
	distinct := map[uint64]bool{}
	nontriv := map[uint64]bool{}
	famCount := map[string]int{}
	fnCount := map[string]int{}
	kinds := map[string]int{}
	lenHist := map[string]int{}
	withA, withS, withM := 0, 0, 0
	for i, o := range ops {
		h := hashStr(o.Line())
		distinct[h] = true
		famCount[o.Fam]++
		fnCount[o.Fn]++
		r := results[i]
		if r.A != "-" && r.A != "" {
			withA++
		}
		if r.S != "-" && r.S != "" && !o.NoS {
			withS++
		}
		if r.M != "-" && r.M != "" && o.StdRaw != "" {
			withM++
		}
		if r.I != "" && !trivial(r.I) && len(o.Args) > 0 && o.Args[0] != "-" {
			nontriv[h] = true
		}
		switch {
		case r.I == "PANIC":
			kinds["panic"]++
		case strings.HasPrefix(r.I, "-1"):
			kinds["notfound"]++
		case r.I == "0" || r.I == "1":
			kinds["bool-or-small"]++
		default:
			kinds["other"]++
		}
		if len(o.Args) > 0 {
			n := len(o.Args[0]) / 2
			b := "0-8"
			switch {
			case n > 64:
				b = ">64"
			case n > 32:
				b = "33-64"
			case n > 16:
				b = "17-32"
			case n > 8:
				b = "9-16"
			}
			lenHist[b]++
		}
	}
	var samples []any
	step := len(ops)/5 + 1
	for i := 0; i < len(ops); i += step {
		samples = append(samples, map[string]string{"op": ops[i].Line(), "I": results[i].I, "A": results[i].A, "S": results[i].S, "family": ops[i].Fam})
	}
	cov := map[string]any{
		"evaluations":              len(ops),
		"cpu_features_cleared":     *flagCPU,
		"cpu_passes":               cpuPassInfo,
		"cpu_features_detected":    cpuWas,
		"distinct_ops":             len(distinct),
		"distinct_nontrivial":      len(nontriv),
		"rule":                     "ops generated by the families listed under 'families' from one PRNG (seed); distinct = distinct op lines; non-trivial = distinct op lines with a non-empty first argument whose real result is not the default (-1 / 0 / empty)",
		"samples":                  samples,
		"families":                 famCount,
		"functions":                fnCount,
		"result_kinds":             kinds,
		"arg1_length_hist":         lenHist,
		"ops_with_algorithm_model": withA,
		"ops_with_specification":   withS,
		"ops_with_std_model":       withM,
		"scale":                    scale,
		"config":                   impl.CfgSuffix(),
		"goarch":                   runtime.GOARCH,
		"violations":               len(viols),
	}
	if len(viols) > 0 {
		n := len(viols)
		if n > 20 {
			n = 20
		}
		cov["first_violations"] = viols[:n]
	}
	if *flagOut != "" {
		data, _ := json.MarshalIndent(map[string]any{"coverage": cov, "wall_s": time.Since(start).Seconds(), "seed": *flagSeed, "tier": *flagTier}, "", " ")
		if err := os.WriteFile(*flagOut, data, 0o644); err != nil {
			infra("%v", err)
		}
	}
	if len(viols) == 0 {
		fmt.Printf("corr %s: %d ops (%d distinct, %d non-trivial), A on %d, S on %d: no disagreement (%.1fs)\n",
			*flagProp, len(ops), len(distinct), len(nontriv), withA, withS, time.Since(start).Seconds())
		os.Exit(0)
	}
	// a concrete failing input (I!=S, I!=std, PANIC, HANG, identity, parity) beats a bare I!=A
	sort.SliceStable(viols, func(i, j int) bool { return rank(viols[i].Kind) < rank(viols[j].Kind) })
	v := viols[0]
	path := "-"
	if *flagReplay != "" {
		os.MkdirAll(*flagReplay, 0o755)
		path = filepath.Join(*flagReplay, fmt.Sprintf("%s_%s_%d.replay", *flagProp, *flagTier, *flagSeed))
		var b bytes.Buffer
		fmt.Fprintf(&b, "# property=%s kind=%s tier=%s seed=%d config=%s\n", *flagProp, v.Kind, *flagTier, *flagSeed, impl.CfgSuffix())
		fmt.Fprintf(&b, "# real code I=%s  algorithm model A=%s  specification S=%s  std=%s\n# %s\n", v.I, v.A, v.S, v.Std, v.Note)
		fmt.Fprintf(&b, "# replay: bin/check replay %s\n", path)
		fmt.Fprintf(&b, "%s\n", v.Op)
		for _, w := range viols[1:] {
			if len(b.Bytes()) > 1<<16 {
				break
			}
			fmt.Fprintf(&b, "# also kind=%s I=%s A=%s S=%s std=%s %s\n%s\n", w.Kind, w.I, w.A, w.S, w.Std, w.Note, w.Op)
		}
		os.WriteFile(path, b.Bytes(), 0o644)
	}
	for _, w := range viols[:min(len(viols), 5)] {
		fmt.Printf("DISAGREEMENT kind=%s op=%q I=%s A=%s S=%s std=%s %s\n", w.Kind, w.Op, w.I, w.A, w.S, w.Std, w.Note)
	}
	if v.Kind == "I!=A" || v.Kind == "std!=M" || v.Kind == "I!=G" {
		fmt.Printf("CORRESPONDENCE-BROKEN property=%s replay=%s\n", *flagProp, path)
		os.Exit(3)
	}
	fmt.Printf("VIOLATION property=%s replay=%s\n", *flagProp, path)
	os.Exit(1)
}

func rank(k string) int {
	if k == "I!=A" || k == "std!=M" || k == "I!=G" {
		return 1
	}
	return 0
}

func min(a, b int) int {
	if a < b {
		return a
	}
	return b
}

var _ = gen.PadLens
