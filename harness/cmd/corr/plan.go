package main

import (
	"bytes"
	"fmt"
	"strconv"
	"strings"
	"unicode"
	"unicode/utf8"

	"github.com/charlievieth/strcase/verifhooks"

	"verif/harness/internal/gen"
	"verif/harness/internal/impl"
)

var (
	fnSearch  = []string{"Index", "Contains"}
	fnLast    = []string{"LastIndex"}
	fnAffix   = []string{"HasPrefix", "HasSuffix", "TrimPrefix", "TrimSuffix", "CutPrefix", "CutSuffix"}
	fnCmp     = []string{"Compare", "EqualFold"}
	fnCount   = []string{"Count", "Cut"}
	fnAny     = []string{"IndexAny", "LastIndexAny", "ContainsAny"}
	fnRune    = []string{"IndexRune", "ContainsRune"}
	fnByte    = []string{"IndexByte", "LastIndexByte", "IndexByteASCII"}
	fnOne     = []string{"IndexNonASCII", "ContainsNonASCII"}
	fnAll2    = concat(fnSearch, fnLast, fnAffix, fnCmp, fnCount, fnAny)
	fnHookIdx = []string{"indexRabinKarpUnicode", "hasPrefixUnicode", "bruteForceIndexUnicode"}
	fnHookLst = []string{"indexRabinKarpRevUnicode", "hasSuffixUnicode"}
)

func concat(ls ...[]string) []string {
	var out []string
	for _, l := range ls {
		out = append(out, l...)
	}
	return out
}

type planner struct {
	g     *gen.G
	sfx   string
	ops   []op
	group int
	fam   string
	noS   bool
	std   bool // attach the standard library's answer where a namesake exists
	lower bool // std on lower-cased arguments (ASCII class of C20)
}

func (p *planner) emit(o impl.Op) {
	x := op{Op: o, Fam: p.fam, Group: p.group, NoS: p.noS}
	if p.std {
		x.Std = stdEval(o, p.lower)
	}
	x.StdRaw = stdEvalRaw(o)
	p.ops = append(p.ops, x)
}

func (p *planner) pair(fns []string, pr gen.Pair) {
	p.group++
	// the hooked strategies have preconditions: non-empty needle; brute force / RK need ≥ 1 rune
	var f2 []string
	for _, fn := range fns {
		switch fn {
		case "indexRabinKarpUnicode", "indexRabinKarpRevUnicode":
			if len(pr.T) == 0 {
				continue
			}
		case "bruteForceIndexUnicode":
			if utf8.RuneCount(pr.T) < 2 {
				continue
			}
		}
		f2 = append(f2, fn)
	}
	gen.Ops2(f2, p.sfx, pr, p.emit)
}

// families of (s, t) pairs shared by most properties
func (p *planner) pairFamilies(fns []string, n int) {
	g := p.g
	p.fam = "embedded"
	g.Embedded(n*4, func(pr gen.Pair) { p.pair(fns, pr) })
	p.fam = "random"
	g.Random(n*3, func(pr gen.Pair) { p.pair(fns, pr) })
	p.fam = "long-needle"
	g.LongNeedle(n, func(pr gen.Pair) { p.pair(fns, pr) })
	// runs of one letter in random case, needle = a shorter run + what follows: overlapping candidates
	// (the "skip two runes" steps of the brute-force search, the skip loop's fails counter)
	p.fam = "letter-runs"
	for i := 0; i < n/2; i++ {
		letters := []string{"a", "A", "é", "É", "Ⱥ", "ⱥ", "k", "K", "\u212a", "s", "ſ", "ß", "ẞ", "σ", "ς", "Σ", "z", "я", "𐐀", "𐐨", "1"}
		L := letters[g.R.Intn(len(letters))]
		o := gen.Orbit([]rune(L)[0])
		run := func(m int) []byte {
			var b []byte
			for ; m > 0; m-- {
				b = append(b, string(o[g.R.Intn(len(o))])...)
			}
			return b
		}
		m := 1 + g.R.Intn(6)
		k := 1 + g.R.Intn(m)
		tail := g.Str(g.R.Intn(2))
		if g.R.Intn(2) == 0 {
			tail = append([]byte("b"), tail...)
		}
		s := append(append(g.Pad([]int{0, 0, 1, 2, 5, 9, 12, 13, 14, 15, 16, 17, 30}[g.R.Intn(13)], g.R.Intn(2), nil), run(m)...), tail...)
		if g.R.Intn(3) == 0 {
			s = append(s, g.Pad(g.R.Intn(6), 0, nil)...)
		}
		t := append(run(k), tail...)
		if g.Valid && (!utf8.Valid(s) || !utf8.Valid(t)) {
			continue
		}
		p.pair(fns, gen.Pair{S: s, T: t})
	}
	// runs of one orbit whose members differ in encoded width (s/S/ſ, k/K/U+212A, ß/ẞ, ǆ/ǅ/Ǆ are same-width controls): the needle a
	// shorter run spelled with the members of ONE width only (all ASCII, or all wide), the haystack a longer run that mixes widths or
	// uses only the other width, with and without text after the run: successive matches overlap unless the search resumes exactly
	// after the matched text, whose byte length differs from the needle's (Count, Cut, Index-after-match, LastIndex from the end)
	p.fam = "width-runs"
	for i := 0; i < n/2; i++ {
		orbs := [][]string{{"s", "S", "ſ"}, {"k", "K", "\u212a"}, {"ß", "ẞ"}, {"ǆ", "ǅ", "Ǆ"}, {"a", "A"}, {"σ", "ς", "Σ"}}
		o := orbs[[]int{0, 0, 0, 1, 1, 1, 2, 2, 3, 4, 5}[g.R.Intn(11)]]
		narrow, wide := o[:len(o)-1], o[len(o)-1:]
		pick := func(set []string, m int) []byte {
			var b []byte
			for ; m > 0; m-- {
				b = append(b, set[g.R.Intn(len(set))]...)
			}
			return b
		}
		k := 1 + g.R.Intn(3)
		m := k + g.R.Intn(2*k+3)
		var t, s []byte
		switch g.R.Intn(4) {
		case 0: // narrow needle, wide haystack
			t, s = pick(narrow, k), pick(wide, m)
		case 1: // wide needle, narrow haystack
			t, s = pick(wide, k), pick(narrow, m)
		case 2: // narrow needle, mixed haystack
			t, s = pick(narrow, k), pick(o, m)
		default:
			t, s = pick(wide, k), pick(o, m)
		}
		switch g.R.Intn(4) {
		case 0:
			s = append(s, 'x')
		case 1:
			s = append(s, g.Str(1)...)
		}
		if g.R.Intn(2) == 0 {
			s = append(g.Pad([]int{1, 2, 5, 9, 13, 14, 15, 16, 17, 30}[g.R.Intn(10)], g.R.Intn(2), nil), s...)
		}
		if g.Valid && (!utf8.Valid(s) || !utf8.Valid(t)) {
			continue
		}
		p.pair(fns, gen.Pair{S: s, T: t})
	}
	// a match at the very end of the haystack whose needle is (much) longer in bytes: first rune of
	// every width, then only runes that shrink when folded (K→k 3:1, ſ→s 2:1, ẞ→ß 3:2); the shape the
	// search-window bound `t` must allow for
	p.fam = "tail-shrink"
	for i := 0; i < n/2; i++ {
		firsts := []string{"x", "K", "é", "ſ", "世", "\u212a", "★", "ẞ", "𐐀", "𐐨", "😀"}
		f := []rune(firsts[g.R.Intn(len(firsts))])[0]
		fo := gen.Orbit(f)
		hay := string(fo[g.R.Intn(len(fo))])
		needle := string(fo[g.R.Intn(len(fo))])
		for m := g.R.Intn(5); m > 0; m-- {
			switch g.R.Intn(4) {
			case 0, 1:
				hay += []string{"k", "K"}[g.R.Intn(2)]
				needle += "\u212a"
			case 2:
				hay += []string{"s", "S"}[g.R.Intn(2)]
				needle += "ſ"
			default:
				hay += "ß"
				needle += "ẞ"
			}
		}
		if i%4 == 0 {
			// exact length ratios: the whole needle is one shrinking partner repeated (len(sub) = 3x or
			// 2x the matched text), short or no pad, so the `n >= len(s)` pre-checks are on the edge
			m := 1 + g.R.Intn(4)
			k := g.R.Intn(3)
			hay = strings.Repeat([]string{"k", "s", "ß"}[k], m)
			needle = strings.Repeat([]string{"\u212a", "ſ", "ẞ"}[k], m)
			if g.R.Intn(2) == 0 {
				hay = strings.ToUpper(hay[:1]) + hay[1:]
			}
		}
		pl := gen.PadLens[g.R.Intn(len(gen.PadLens))]
		if i%4 == 0 {
			pl = g.R.Intn(4)
		}
		s := append(g.Pad(pl, g.R.Intn(2), nil), hay...)
		switch g.R.Intn(5) {
		case 0:
			s = append(s, 'x')
		case 1:
			s = append(s, g.Str(1)...)
		}
		if g.Valid && !utf8.Valid(s) {
			continue
		}
		p.pair(fns, gen.Pair{S: s, T: []byte(needle)})
	}
	// partial matches before the real one: the haystack is a chain of proper prefixes of the needle (re-cased),
	// each broken off by a different atom, then (usually) the whole needle; needles of 2..5 atoms over a tiny
	// alphabet of mixed widths, cased and caseless, so that candidate positions overlap and every "skip ahead
	// after a failed candidate" step of the searches is exercised, on both sides of the 16-byte cut-over
	p.fam = "partial-prefixes"
	for i := 0; i < n/2; i++ {
		alpha := [][]string{{"世", "1", "、"}, {"a", "b"}, {"k", "\u212a", "a"}, {"😀", "1", "!"}, {"é", "É", "e"}, {"¥", "1", "0"},
			{"s", "ſ", "t"}, {"σ", "ς", "α"}, {"ß", "ẞ", "s"}, {"𐐀", "𐐨", "x"}, {"0", "1"}, {"あ", "い", "a"}}[g.R.Intn(12)]
		m := 2 + g.R.Intn(4)
		var atoms []string
		for j := 0; j < m; j++ {
			atoms = append(atoms, alpha[g.R.Intn(len(alpha))])
		}
		var s []byte
		for j := g.R.Intn(4); j > 0; j-- {
			k := 1 + g.R.Intn(m-1)
			part := []byte(strings.Join(atoms[:k], ""))
			if g.R.Intn(2) == 0 {
				part = g.Recase(part)
			}
			s = append(s, part...)
			if g.R.Intn(3) > 0 {
				s = append(s, alpha[g.R.Intn(len(alpha))]...)
			}
		}
		t := []byte(strings.Join(atoms, ""))
		if g.R.Intn(4) > 0 {
			s = append(s, g.Recase(t)...)
		}
		if g.R.Intn(3) == 0 {
			s = append(s, alpha[g.R.Intn(len(alpha))]...)
		}
		if g.R.Intn(4) == 0 {
			s = append(g.Pad([]int{1, 5, 9, 14, 17}[g.R.Intn(5)], g.R.Intn(2), nil), s...)
		}
		if g.Valid && (!utf8.Valid(s) || !utf8.Valid(t)) {
			continue
		}
		p.pair(fns, gen.Pair{S: s, T: t})
	}
	// two long arguments that share a long common prefix (or suffix) up to case, with lengths around the
	// power-of-two block sizes a chunked comparison would use, and then differ in code points that share
	// their leading byte(s): what a block-wise skip of "equal" bytes must not get wrong
	p.fam = "common-affix"
	for i := 0; i < n/2; i++ {
		base := []int{7, 8, 9, 15, 16, 17, 31, 32, 33, 63, 64, 65, 127, 128, 129, 255, 256, 257, 511, 512, 513}[g.R.Intn(21)]
		L := base
		if g.R.Intn(4) == 0 {
			L += g.R.Intn(5) - 2
		}
		var P []byte
		switch g.R.Intn(3) {
		case 0:
			for len(P) < L {
				P = append(P, "aAbBzZ09[{@`"[g.R.Intn(12)])
			}
		case 1:
			P = g.Pad(L, 1, nil)
		default:
			for len(P) < L {
				P = append(P, 'a')
			}
		}
		P2 := append([]byte(nil), P...)
		if g.R.Intn(2) == 0 {
			for j, c := range P2 {
				if ('a' <= c && c <= 'z' || 'A' <= c && c <= 'Z') && g.R.Intn(2) == 0 {
					P2[j] = c ^ 0x20
				}
			}
		}
		// one byte differing by exactly 0x20 whatever its class: a letter's other case (still equal) or a
		// non-letter neighbour such as '[' / '{' (no longer equal) — what a word-at-a-time `|0x20` trick confuses
		nearFold := false
		if g.R.Intn(3) == 0 && len(P2) > 0 {
			j := g.R.Intn(len(P2))
			if P2[j] < 0x80 {
				P2[j] = P[j] ^ 0x20
				nearFold = true
			}
		}
		sib := [][2]string{{"é", "ê"}, {"é", "É"}, {"\u212a", "\u212b"}, {"\u212a", "k"}, {"𐐀", "𐐁"}, {"𐐀", "𐐨"}, {"a", "b"}, {"世", "丗"},
			{"ß", "ẞ"}, {"ſ", "s"}, {"ſ", "ž"}, {"я", "Я"}, {"я", "ю"}, {"", "x"}, {"é", ""}, {"é", "é"}}[g.R.Intn(16)]
		x, y := []byte(sib[0]), []byte(sib[1])
		if g.R.Intn(2) == 0 {
			x, y = y, x
		}
		tailS, tailT := g.Str(g.R.Intn(2)), g.Str(g.R.Intn(2))
		if g.R.Intn(2) == 0 {
			tailT = tailS
		}
		if nearFold && g.R.Intn(4) > 0 {
			// make that byte the only thing that decides
			y = g.Recase(x)
			tailT = g.Recase(tailS)
		}
		var s, t []byte
		if g.R.Intn(3) > 0 {
			s = append(append(append(s, P...), x...), tailS...)
			t = append(append(append(t, P2...), y...), tailT...)
		} else {
			s = append(append(append(s, tailS...), x...), P...)
			t = append(append(append(t, tailT...), y...), P2...)
		}
		if g.Valid && (!utf8.Valid(s) || !utf8.Valid(t)) {
			continue
		}
		p.pair(fns, gen.Pair{S: s, T: t})
	}
	// a match that starts exactly at, just before or just after a power-of-two offset of a long haystack, its first
	// code point written as the widest member of its orbit: what a search in fixed-size windows or chunks must not
	// skip or split (mirrored for the searches from the end)
	p.fam = "window-edges"
	for i := 0; i < n/3; i++ {
		Ls := []int{32, 64, 128, 256, 512, 1024, 2048, 4096}
		if g.Scale == 1 {
			Ls = Ls[:6] // the quick tier stops at 1024
		}
		L := Ls[g.R.Intn(len(Ls))]
		d := g.R.Intn(7) - 3
		if L+d < 0 {
			d = 0
		}
		first := []string{"k", "s", "ß", "å", "ω", "é", "ɐ", "x", "世"}[g.R.Intn(9)]
		o := gen.Orbit([]rune(first)[0])
		wide := o[0]
		for _, r := range o {
			if utf8.RuneLen(r) > utf8.RuneLen(wide) {
				wide = r
			}
		}
		rest := []string{"@", "ey", "b1", "", "k", "\u212a"}[g.R.Intn(6)]
		needle := []byte(string(o[g.R.Intn(len(o))]) + rest)
		hit := []byte(string(wide) + rest)
		fill := byte(" _0"[g.R.Intn(3)])
		pad := make([]byte, L+d)
		for j := range pad {
			pad[j] = fill
		}
		tail := g.Pad([]int{0, 1, 7, 40, 300}[g.R.Intn(5)], 0, nil)
		var s []byte
		if g.R.Intn(3) > 0 {
			s = append(append(append(s, pad...), hit...), tail...)
			if g.R.Intn(3) == 0 {
				s = append(append(s, needle...), 'x')
			}
		} else {
			s = append(append(append(s, tail...), hit...), pad...)
		}
		if g.R.Intn(5) == 0 {
			s = append([]byte("x"), s...)
		}
		p.pair(fns, gen.Pair{S: s, T: needle})
	}
	// ill-formed input only: one argument holds a multi-byte code point, the other a proper prefix of its
	// encoding followed by something that is not the right continuation (ASCII, a bad byte, another lead byte,
	// U+FFFD, the rest of the code point after one wrong byte), after a common prefix: a bytewise skip of the
	// "equal" bytes must not leave the two decoders out of step
	if !g.Valid {
		p.fam = "truncations"
		for i := 0; i < n/2; i++ {
			R := []string{"é", "α", "\u212a", "世", "�", "𐐀", "😀", "ſ", "ẞ"}[g.R.Intn(9)]
			enc := []byte(R)
			k := 1 + g.R.Intn(len(enc)-1)
			after := [][]byte{{}, {'('}, {0xFF}, {0xC3}, {0x80}, []byte("�"), {0xF0}, {'a'}, enc[k:], append([]byte{0xFF}, enc[k:]...)}[g.R.Intn(10)]
			pre := g.Pad([]int{0, 0, 1, 3, 7, 8, 15, 16, 17, 31}[g.R.Intn(10)], g.R.Intn(2), nil)
			pre2 := pre
			if g.R.Intn(3) == 0 {
				pre2 = g.Recase(pre)
			}
			tail := g.Str(g.R.Intn(2))
			a := append(append(append(append([]byte(nil), pre...), enc[:k]...), after...), tail...)
			b := append(append(append([]byte(nil), pre2...), enc...), tail...)
			if g.R.Intn(2) == 0 {
				a, b = b, a
			}
			p.pair(fns, gen.Pair{S: a, T: b})
		}
	}
	p.fam = "small-exhaustive"
	stride := 40 / g.Scale
	if stride < 1 {
		stride = 1
	}
	g.SmallExhaustive(2, 2, stride, func(pr gen.Pair) { p.pair(fns, pr) })
	// one-byte needles of every ASCII value against their 0x20-neighbours (every two-argument function)
	p.singleByteCount(fns, n/4)
	// (haystack, character set) shapes of the *Any functions
	p.anyFamilies(fns, n)
}

func (p *planner) runeFamilies(fns []string, n int) {
	g := p.g
	p.fam = "decoys"
	g.Decoys(n, func(s []byte, r rune) {
		p.group++
		gen.OpsRune(fns, p.sfx, s, r, p.emit)
	})
	p.fam = "inner-repeat-decoys"
	g.InnerRepeatDecoys(n, func(s []byte, r rune) {
		p.group++
		gen.OpsRune(fns, p.sfx, s, r, p.emit)
	})
	p.fam = "rune-in-text"
	for i := 0; i < n; i++ {
		s := g.Str(g.R.Intn(8))
		var r rune
		if len(s) > 0 && g.R.Intn(3) > 0 {
			// a fold partner of some rune of s
			rs := []rune(string(s))
			o := gen.Orbit(rs[g.R.Intn(len(rs))])
			r = o[g.R.Intn(len(o))]
		} else {
			r = g.RandRune()
		}
		s = append(g.Pad(gen.PadLens[g.R.Intn(12)], g.R.Intn(2), nil), s...)
		p.group++
		gen.OpsRune(fns, p.sfx, s, r, p.emit)
	}
	p.fam = "edge-runes"
	for _, r := range gen.EdgeRunes {
		for i := 0; i < 3; i++ {
			s := g.Str(g.R.Intn(6))
			if i == 0 && utf8.ValidRune(r) {
				s = append(s, string(r)...)
			}
			p.group++
			gen.OpsRune(fns, p.sfx, s, r, p.emit)
		}
	}
}

func (p *planner) byteFamilies(fns []string, n int) {
	g := p.g
	p.fam = "all-bytes"
	for c := 0; c < 256; c++ {
		for i := 0; i < 1+n/200; i++ {
			s := g.Str(g.R.Intn(7))
			if g.R.Intn(2) == 0 {
				s = append(s, byte(c))
			}
			if g.R.Intn(4) == 0 && c < 0x80 {
				s = append(s, byte(unicode.ToUpper(rune(c))), byte(unicode.ToLower(rune(c))))
			}
			// the 0x20-neighbours of the byte, before and after it: '[' vs '{', '@' vs '`' must not be folded
			if g.R.Intn(3) == 0 && c < 0x80 {
				nb := []byte{byte(c) ^ 0x20, byte(c) | 0x20, byte(c) &^ 0x20}
				s = append([]byte{nb[g.R.Intn(3)]}, s...)
				s = append(s, nb[g.R.Intn(3)])
			}
			s = append(s, g.Str(g.R.Intn(3))...)
			if g.R.Intn(3) == 0 {
				s = append(g.Pad(gen.PadLens[g.R.Intn(len(gen.PadLens))], 0, nil), s...)
			}
			if g.Valid && !utf8.Valid(s) {
				continue
			}
			p.group++
			gen.OpsByte(fns, p.sfx, s, byte(c), p.emit)
		}
	}
	p.fam = "ks-relatives"
	for i := 0; i < n; i++ {
		c := "KkSs"[g.R.Intn(4)]
		var s []byte
		for j := g.R.Intn(6); j > 0; j-- {
			s = append(s, []string{"x", "K", "\u212a", "ſ", "k", "S", "世", "\xe2\x84", "\xc5", "\xaa", "\xbf"}[g.R.Intn(11)]...)
		}
		if g.Valid && !utf8.Valid(s) {
			continue
		}
		s = append(g.Pad(g.R.Intn(20), 0, nil), s...)
		p.group++
		gen.OpsByte(fns, p.sfx, s, c, p.emit)
	}
}

func (p *planner) oneFamilies(fns []string, n int) {
	g := p.g
	p.fam = "non-ascii"
	for i := 0; i < n; i++ {
		s := g.Pad(g.R.Intn(80), 0, nil)
		if g.R.Intn(3) > 0 {
			a := g.Str(1)
			k := g.R.Intn(len(s) + 1)
			s = append(append(append([]byte{}, s[:k]...), a...), s[k:]...)
		}
		p.group++
		gen.Ops1(fns, p.sfx, s, p.emit)
	}
}

// rkCollisions: haystacks containing a window whose rolling hash equals the needle's although the
// window is not a match, placed before/after a real match or alone.
func (p *planner) rkCollisions(fns []string, n int) {
	g := p.g
	p.fam = "rk-collisions"
	caseless := func(r rune) bool { return len(gen.Orbit(r)) == 1 }
	cols := gen.Collisions(16777619, caseless, 40)
	for i := 0; i < n && len(cols) > 0; i++ {
		c := cols[g.R.Intn(len(cols))]
		a, b := string(c[0][:]), string(c[1][:])
		if i%2 == 1 {
			// the reverse search hashes the window from its last rune: swap the runes
			a, b = string([]rune{c[0][1], c[0][0]}), string([]rune{c[1][1], c[1][0]})
		}
		if g.R.Intn(2) == 0 {
			a, b = b, a
		}
		pad := func() []byte { return g.Pad(gen.PadLens[g.R.Intn(14)], g.R.Intn(2), nil) }
		var s []byte
		switch g.R.Intn(4) {
		case 0: // decoy only
			s = append(append(pad(), b...), pad()...)
		case 1: // real match, then decoy to the right
			s = append(append(append(append(pad(), a...), pad()...), b...), pad()...)
		case 2: // decoy, then real match
			s = append(append(append(append(pad(), b...), pad()...), a...), pad()...)
		default: // decoy at the very start / end
			s = append(append([]byte(b), pad()...), b...)
		}
		if g.Valid && !utf8.Valid(s) {
			continue
		}
		p.pair(fns, gen.Pair{S: s, T: []byte(a)})
	}
}

// dotlessFamilies: İ ı i I in the first / second needle position, haystacks on both sides of the
// brute-force thresholds (C03: U+0130/U+0131 are equal only to themselves).
func (p *planner) dotlessFamilies(fns []string, n int) {
	g := p.g
	p.fam = "dotted-dotless-i"
	is := []string{"İ", "ı", "i", "I"}
	for i := 0; i < n; i++ {
		x, y := is[g.R.Intn(4)], is[g.R.Intn(4)]
		pre := []string{"", "x", "é", "世"}[g.R.Intn(4)]
		post := []string{"", "y", "ß", "\u212a"}[g.R.Intn(4)]
		needle := pre + x + post
		hay := pre + y + post
		if g.R.Intn(3) == 0 {
			needle += strings.Repeat("z", g.R.Intn(40))
			hay += needle[len(pre+x+post):]
		}
		s := append(g.Pad(gen.PadLens[g.R.Intn(len(gen.PadLens))], g.R.Intn(2), nil), hay...)
		if g.R.Intn(2) == 0 {
			s = append(s, g.Pad(g.R.Intn(20), 0, nil)...)
		}
		p.pair(fns, gen.Pair{S: s, T: []byte(needle)})
	}
}

// anyFamilies: (s, chars) pairs across the strategies of IndexAny/LastIndexAny: haystack lengths around the
// `len(s) > 8` gate and the `len(s) > 2*len(chars)` gate, ASCII-only and mixed haystacks, chars mixing K/k/S/s
// (the ASCII-set escape hatch), other letters in both cases, non-letters and non-ASCII members
func (p *planner) anyFamilies(fns []string, n int) {
	g := p.g
	p.fam = "any-strategies"
	for i := 0; i < n; i++ {
		ls := []int{0, 1, 2, 7, 8, 9, 10, 16, 17, 30}[g.R.Intn(10)]
		var s []byte
		switch g.R.Intn(3) {
		case 0:
			s = g.Pad(ls, 0, nil)
		case 1:
			s = g.Pad(ls, 3, nil)
		default:
			for len(s) < ls {
				s = append(s, "aAzZkKsSbB1-xX"[g.R.Intn(14)])
			}
		}
		if g.R.Intn(2) == 0 {
			s = append(s, []string{"\u212a", "ſ", "k", "S", "世", "é", "1", "A", "z"}[g.R.Intn(9)]...)
		}
		var chars []byte
		for j := g.R.Intn(6); j > 0; j-- {
			chars = append(chars, []string{"k", "K", "s", "S", "\u212a", "ſ", "a", "A", "1", "é", "世", "z", "Z", "b", "-"}[g.R.Intn(15)]...)
		}
		if g.R.Intn(4) == 0 {
			chars = append(chars, g.Str(1)...)
		}
		if g.Valid && (!utf8.Valid(s) || !utf8.Valid(chars)) {
			continue
		}
		p.pair(fns, gen.Pair{S: s, T: chars})
		// planted design: neutral filler that is in no orbit of `chars`, with zero, one or two planted fold
		// variants of members of `chars`: every member and every variant gets to be the deciding match
		if len(chars) == 0 || !utf8.Valid(chars) {
			continue
		}
		rs := []rune(string(chars))
		fill := byte("0_ "[g.R.Intn(3)])
		total := []int{1, 2, 7, 8, 9, 10, 12, 16, 17, 30}[g.R.Intn(10)]
		var s2 []byte
		for len(s2) < total {
			s2 = append(s2, fill)
		}
		for k := g.R.Intn(3); k > 0; k-- {
			m := rs[g.R.Intn(len(rs))]
			o := gen.Orbit(m)
			v := []byte(string(o[g.R.Intn(len(o))]))
			at := g.R.Intn(len(s2) + 1)
			s2 = append(s2[:at:at], append(v, s2[at:]...)...)
		}
		p.pair(fns, gen.Pair{S: s2, T: chars})
	}
}

// singleByteCount: Count/Cut/Index… with one-byte needles (the byte kernels behind Count)
func (p *planner) singleByteCount(fns []string, n int) {
	g := p.g
	p.fam = "single-byte-needle"
	for i := 0; i < n; i++ {
		c := "KkSsaZ1"[g.R.Intn(7)]
		var s []byte
		for j := g.R.Intn(8); j > 0; j-- {
			s = append(s, []string{"x", "K", "ſ", "k", "S", "s", "\u212a", "a", "A", "z", "1"}[g.R.Intn(11)]...)
		}
		p.pair(fns, gen.Pair{S: s, T: []byte{c}})
		// any ASCII byte against itself, its other case and its 0x20-neighbours (the byte kernel's
		// letter test: '@' '[' '`' '{' must not be folded), on both sides of the SIMD thresholds
		c = byte(g.R.Intn(128))
		if g.R.Intn(2) == 0 {
			c = "@[`{AZaz\x40\x5b\x60\x7b"[g.R.Intn(12)]
		}
		s = g.Pad([]int{0, 3, 15, 16, 17, 33, 64, 70}[g.R.Intn(8)], 0, nil)
		for j := g.R.Intn(6); j > 0; j-- {
			s = append(s, []byte{c, c ^ 0x20, c | 0x20, c &^ 0x20, 'x'}[g.R.Intn(5)])
		}
		p.pair(fns, gen.Pair{S: s, T: []byte{c}})
	}
}

func plan(prop string, seed int64, scale int) []op {
	sfx := impl.CfgSuffix()
	n := 1500 * scale
	mk := func(valid bool) *planner {
		return &planner{g: gen.New(seed*7919+int64(len(prop)), valid, scale), sfx: sfx}
	}
	switch prop {
	case "C01":
		p := mk(true)
		p.pairFamilies(concat(fnSearch, fnHookIdx), n)
		p.rkCollisions(concat(fnSearch, fnHookIdx), n/4)
		p.dotlessFamilies(fnSearch, n/3)
		return p.ops
	case "C02":
		p := mk(false)
		p.std = true
		p.pairFamilies([]string{"EqualFold"}, n)
		p.fam = "fold-table-sweep"
		for r := rune(0); r <= unicode.MaxRune; r++ {
			if f := verifhooks.CaseFold(r); f != r && utf8.ValidRune(r) && utf8.ValidRune(f) {
				p.pair([]string{"EqualFold"}, gen.Pair{S: []byte(string(r)), T: []byte(string(f))})
				p.pair([]string{"EqualFold"}, gen.Pair{S: []byte("a" + string(f)), T: []byte("A" + string(r))})
			}
		}
		return p.ops
	case "C04":
		p := mk(false)
		p.pairFamilies(fnCmp, n)
		return p.ops
	case "C06":
		p := mk(false)
		p.pairFamilies(concat(fnAll2, fnHookIdx, fnHookLst), n/4)
		p.runeFamilies(concat(fnRune, []string{"indexRuneCase", "indexRune", "lastIndexRune"}), n/2)
		p.byteFamilies(concat(fnByte, []string{"indexByte"}), n/2)
		p.oneFamilies(fnOne, n/4)
		return p.ops
	case "C07":
		p := mk(false)
		p.pairFamilies(fnAll2, n/4)
		p.runeFamilies(fnRune, n/2)
		p.byteFamilies(fnByte, n/2)
		p.oneFamilies(fnOne, n/4)
		p.singleByteCount(concat(fnCount, fnSearch, fnLast), n/2)
		return p.ops
	case "C08":
		p := mk(true)
		p.pairFamilies(concat(fnLast, fnSearch, fnHookLst), n)
		p.runeFamilies([]string{"lastIndexRune"}, n/2)
		p.rkCollisions(concat(fnLast, fnHookLst), n/4)
		return p.ops
	case "C09":
		p := mk(true)
		p.pairFamilies(concat(fnAffix, []string{"hasPrefixUnicode", "hasSuffixUnicode"}), n)
		p.fam = "affix-of-self"
		for i := 0; i < n; i++ {
			s := p.g.Str(1 + p.g.R.Intn(6))
			rs := p.g.Recase(s)
			k := p.g.R.Intn(len(rs) + 1)
			for k < len(rs) && !utf8.RuneStart(rs[k]) {
				k++
			}
			pre, suf := rs[:k], rs[k:]
			if p.g.R.Intn(4) == 0 {
				pre = append(append([]byte{}, pre...), p.g.Str(1)...)
			}
			p.pair(fnAffix, gen.Pair{S: s, T: pre})
			p.pair(fnAffix, gen.Pair{S: s, T: suf})
		}
		return p.ops
	case "C10":
		p := mk(false)
		p.runeFamilies(concat(fnRune, []string{"indexRuneCase", "indexRune", "lastIndexRune"}), n*2)
		p.byteFamilies(concat(fnByte, []string{"indexByte"}), n)
		return p.ops
	case "C11":
		p := mk(false)
		p.pairFamilies(concat(fnAny, []string{"makeASCIISet"}), n/2)
		p.anyFamilies(concat(fnAny, []string{"makeASCIISet"}), n*2)
		return p.ops
	case "C12":
		p := mk(true)
		p.pairFamilies(fnCount, n)
		p.fam = "repeats"
		for i := 0; i < n; i++ {
			g := p.g
			t := g.Str(1 + g.R.Intn(2))
			var s []byte
			for j := g.R.Intn(6); j > 0; j-- {
				s = append(s, g.Recase(t)...)
				if g.R.Intn(3) == 0 {
					s = append(s, g.Str(1)...)
				}
			}
			p.pair(concat(fnCount, []string{"Index"}), gen.Pair{S: s, T: t})
		}
		p.singleByteCount(fnCount, n/2)
		return p.ops
	case "C15":
		p := mk(false)
		p.pairFamilies(fnAll2, n/3)
		p.runeFamilies(fnRune, n/2)
		p.fam = "bad-vs-fffd"
		for i := 0; i < n; i++ {
			g := p.g
			var s, t []byte
			for j := 1 + g.R.Intn(4); j > 0; j-- {
				switch g.R.Intn(3) {
				case 0:
					s = append(s, 0xFF)
					t = append(t, "�"...)
				case 1:
					s = append(s, "�"...)
					t = append(t, 0x80)
				default:
					a := g.Str(1)
					s = append(s, a...)
					t = append(t, g.Recase(a)...)
				}
			}
			s = append(append(g.Pad(g.R.Intn(20), 0, nil), s...), g.Pad(g.R.Intn(3), 0, nil)...)
			p.pair(fnAll2, gen.Pair{S: s, T: t})
		}
		return p.ops
	case "C16":
		p := mk(true)
		p.pairFamilies(fnAll2, n/4)
		p.fam = "recase"
		for i := 0; i < n; i++ {
			g := p.g
			var pr gen.Pair
			g.Embedded(1, func(x gen.Pair) { pr = x })
			if len(pr.S) > 40 {
				pr.S = pr.S[len(pr.S)-40:]
				for len(pr.S) > 0 && !utf8.RuneStart(pr.S[0]) {
					pr.S = pr.S[1:]
				}
			}
			p.pair(fnAll2, pr)
			for k := 0; k < 3; k++ {
				p.pair(fnAll2, gen.Pair{S: g.Recase(pr.S), T: g.Recase(pr.T)})
			}
		}
		p.fam = "recase-all"
		for i := 0; i < n/10; i++ {
			g := p.g
			s := g.Str(1 + g.R.Intn(3))
			t := g.Str(1 + g.R.Intn(2))
			for _, s2 := range gen.RecaseAll(s, 12) {
				for _, t2 := range gen.RecaseAll(t, 6) {
					p.pair(fnAll2, gen.Pair{S: s2, T: t2})
				}
			}
		}
		return p.ops
	case "C17":
		p := mk(false)
		p.pairFamilies(fnAll2, n/3)
		p.runeFamilies(fnRune, n/3)
		p.byteFamilies(fnByte, n/3)
		p.oneFamilies(fnOne, n/4)
		p.singleByteCount(concat(fnCount, fnSearch, fnLast), n/2)
		return p.ops
	case "C19":
		p := mk(true)
		fns := concat(fnSearch, fnLast, []string{"HasPrefix", "HasSuffix", "Count"})
		p.pairFamilies(fns, n/3)
		p.fam = "embedding"
		for i := 0; i < n*2; i++ {
			g := p.g
			var pr gen.Pair
			g.Embedded(1, func(x gen.Pair) { pr = x })
			x := g.Pad(gen.PadLens[g.R.Intn(len(gen.PadLens))], g.R.Intn(4), g.Recase(pr.T))
			y := g.Pad(gen.PadLens[g.R.Intn(len(gen.PadLens))], g.R.Intn(4), g.Recase(pr.T))
			if !utf8.Valid(x) || !utf8.Valid(y) {
				continue
			}
			p.pair(fns, pr)
			p.pair(fns, gen.Pair{S: append(append([]byte{}, pr.S...), y...), T: pr.T})
			p.pair(fns, gen.Pair{S: append(append([]byte{}, x...), pr.S...), T: pr.T})
			p.pair(fns, gen.Pair{S: append(append(append([]byte{}, x...), pr.S...), y...), T: pr.T})
		}
		return p.ops
	case "C20":
		p := mk(true)
		p.std = true
		g := p.g
		caseless := []string{"0", "9", " ", "-", ".", "_", "@", "[", "{", "¿", "×", "世", "界", "あ", "😀", "💩", "ࠀ", "\U00010000"}
		ascii := []string{"a", "A", "b", "B", "k", "K", "s", "S", "z", "Z", "i", "I", "0", "-", " ", "@", "[", "`", "{", "\x7f", "\x00"}
		mkS := func(alpha []string, n int) []byte {
			var b []byte
			for ; n > 0; n-- {
				b = append(b, alpha[g.R.Intn(len(alpha))]...)
			}
			return b
		}
		for cls, alpha := range [][]string{caseless, ascii} {
			p.lower = cls == 1
			p.fam = []string{"caseless", "ascii"}[cls]
			for i := 0; i < n*2; i++ {
				s := mkS(alpha, g.R.Intn(10))
				if g.R.Intn(3) == 0 {
					s = append(mkS(alpha[:1], gen.PadLens[g.R.Intn(len(gen.PadLens))]), s...)
				}
				var t []byte
				switch g.R.Intn(3) {
				case 0:
					t = mkS(alpha, g.R.Intn(4))
				case 1:
					if len(s) > 0 {
						a := g.R.Intn(len(s))
						b := a + g.R.Intn(len(s)-a+1)
						t = append([]byte{}, s[a:b]...)
						for len(t) > 0 && !utf8.Valid(t) {
							t = t[1:]
						}
						for len(t) > 0 && !utf8.Valid(t) {
							t = t[:len(t)-1]
						}
						if cls == 1 {
							t = flipCase(t, g.R.Intn)
						}
					}
				default:
					t = append([]byte{}, s...)
					if cls == 1 {
						t = flipCase(t, g.R.Intn)
					}
				}
				if !utf8.Valid(t) {
					continue
				}
				p.pair(fnAll2, gen.Pair{S: s, T: t})
				if len(t) > 0 {
					r, _ := utf8.DecodeRune(t)
					p.group++
					gen.OpsRune(fnRune, p.sfx, s, r, p.emit)
					if r < 0x80 {
						gen.OpsByte(fnByte, p.sfx, s, byte(r), p.emit)
					}
				}
			}
			// partial matches before the real one, inside the class: needle of 2..5 atoms over three atoms of the
			// class; the haystack chains proper prefixes of the needle broken off by another atom, then the needle
			p.fam = []string{"caseless-partial", "ascii-partial"}[cls]
			for i := 0; i < n; i++ {
				a3 := []string{alpha[g.R.Intn(len(alpha))], alpha[g.R.Intn(len(alpha))], alpha[g.R.Intn(len(alpha))]}
				m := 2 + g.R.Intn(4)
				var atoms []string
				for j := 0; j < m; j++ {
					atoms = append(atoms, a3[g.R.Intn(3)])
				}
				var s []byte
				for j := g.R.Intn(4); j > 0; j-- {
					s = append(s, strings.Join(atoms[:1+g.R.Intn(m-1)], "")...)
					if g.R.Intn(3) > 0 {
						s = append(s, a3[g.R.Intn(3)]...)
					}
				}
				t := []byte(strings.Join(atoms, ""))
				if g.R.Intn(4) > 0 {
					s = append(s, t...)
				}
				if g.R.Intn(3) == 0 {
					s = append(s, a3[g.R.Intn(3)]...)
				}
				if cls == 1 {
					s = flipCase(s, g.R.Intn)
				}
				p.pair(fnAll2, gen.Pair{S: s, T: t})
			}
		}
		return p.ops
	case "C03":
		// single-code-point strings: every member of every orbit against every other member,
		// against neighbours, and against random code points; IndexRune on single-rune haystacks
		p := mk(false)
		p.fam = "orbit-pairs"
		seen := map[rune]bool{}
		step := rune(3)
		if scale > 1 {
			step = 1
		}
		for r := rune(0); r <= unicode.MaxRune; r++ {
			o := gen.Orbit(r)
			if len(o) < 2 || seen[o[0]] {
				continue
			}
			seen[o[0]] = true
			for _, a := range o {
				for _, b := range o {
					p.pair(fnCmp, gen.Pair{S: []byte(string(a)), T: []byte(string(b))})
				}
				for _, b := range []rune{a + 1, a - 1, a + 32, a ^ 0x20, unicode.ToUpper(a), unicode.ToLower(a)} {
					if b >= 0 && (a+b)%step == 0 {
						p.pair([]string{"EqualFold"}, gen.Pair{S: []byte(string(a)), T: []byte(string(b))})
					}
				}
				p.group++
				gen.OpsRune(fnRune, p.sfx, []byte("x"+string(o[len(o)-1])), a, p.emit)
			}
		}
		// every code point whose CaseFold differs from itself, against its fold, with the standard
		// library (the toolchain's unicode tables) as the oracle: a spurious or edited entry is a
		// concrete (a, b) on which strcase.EqualFold and strings.EqualFold disagree
		p.fam = "fold-table-sweep"
		p.std = true
		for r := rune(0); r <= unicode.MaxRune; r++ {
			if f := verifhooks.CaseFold(r); f != r && utf8.ValidRune(r) && utf8.ValidRune(f) {
				p.pair([]string{"EqualFold"}, gen.Pair{S: []byte(string(r)), T: []byte(string(f))})
			}
			if fm := verifhooks.FoldMap(r); fm != nil {
				for _, m := range fm {
					if m != 0 && utf8.ValidRune(r) {
						p.pair([]string{"EqualFold"}, gen.Pair{S: []byte(string(r)), T: []byte(string(rune(m)))})
					}
				}
			}
			if u, l, ok := verifhooks.ToUpperLower(r); ok && utf8.ValidRune(r) && r != 0x130 && r != 0x131 {
				p.pair([]string{"EqualFold"}, gen.Pair{S: []byte(string(u)), T: []byte(string(l))})
			}
		}
		p.std = false
		p.dotlessFamilies(concat(fnSearch, fnLast, []string{"HasPrefix", "Count"}), n/2)
		p.fam = "random-code-points"
		for i := 0; i < n*4; i++ {
			a, b := p.g.RandRune(), p.g.RandRune()
			p.pair(fnCmp, gen.Pair{S: []byte(string(a)), T: []byte(string(b))})
		}
		p.fam = "special"
		for _, a := range []rune{0x130, 0x131, 'i', 'I', 0xFFFD, 0xD800, 0x10FFFF, 'K', 'k', 0x212A, 'S', 's', 0x17F} {
			for _, b := range []rune{0x130, 0x131, 'i', 'I', 0xFFFD, 'K', 'k', 0x212A, 'S', 's', 0x17F} {
				p.pair(fnCmp, gen.Pair{S: []byte(string(a)), T: []byte(string(b))})
			}
		}
		return p.ops
	case "C05", "C18":
		// the runtime tools carry these properties; the ops here keep the model tied to the code
		p := mk(false)
		p.pairFamilies(fnAll2, n/6)
		return p.ops
	case "C13", "C14":
		p := mk(false)
		p.fam = "byte-kernels"
		kfns := []string{"kIndexByte", "kCount", "IndexByteASCII", "IndexByte", "LastIndexByte"}
		for i := 0; i < n*2; i++ {
			g := p.g
			L := []int{0, 1, 7, 15, 16, 17, 31, 32, 33, 63, 64, 65, 100, 130, 257}[g.R.Intn(15)]
			s := g.Pad(L, g.R.Intn(2), nil)
			c := []byte("kKsSaZz1@[`{\x00\x7f\xc5\xe2\xff")[g.R.Intn(17)]
			for j := g.R.Intn(3); j > 0 && len(s) > 0; j-- {
				k := g.R.Intn(len(s))
				if k > len(s)-4 && g.R.Intn(2) == 0 {
					k = len(s) - 1
				}
				s[k] = []byte{c, c ^ 0x20, c | 0x80}[g.R.Intn(3)]
			}
			p.group++
			gen.OpsByte(kfns, p.sfx, s, c, p.emit)
			gen.Ops1([]string{"kIndexNonASCII", "IndexNonASCII", "ContainsNonASCII"}, p.sfx, s, p.emit)
			gen.Ops2([]string{"Count"}, p.sfx, gen.Pair{S: s, T: []byte{c & 0x7F}}, p.emit)
		}
		if prop == "C14" {
			p.singleByteCount(fnCount, n/2)
			p.pairFamilies(fnAll2, n/4)
			p.runeFamilies(concat(fnRune, []string{"indexRuneCase"}), n/2)
			p.byteFamilies(fnByte, n/3)
		}
		return p.ops
	case "tables":
		// exhaustive correspondence of the five table functions (C03)
		p := mk(false)
		p.fam = "all-code-points"
		fns := []string{"CaseFold", "FoldMap", "FoldMapExcludingUpperLower", "ToUpperLower"}
		emitR := func(r int64) {
			for _, fn := range fns {
				p.ops = append(p.ops, op{Op: impl.Op{Fn: fn, Cfg: "s" + sfx, Args: []string{strconv.FormatInt(r, 10)}}, Fam: p.fam, Group: int(r)})
			}
		}
		step := int64(1)
		if scale == 1 {
			step = 1 // the full sweep is cheap enough for the quick tier
		}
		for r := int64(0); r <= 0x110010; r += step {
			emitR(r)
		}
		for _, r := range []int64{-1 << 31, -1<<31 + 1, -0x10000, -0x212A, -1, 1<<31 - 1, 1<<31 - 2, 0x7FFF0000, 0x20000000, 0x1E943 + 1<<20} {
			emitR(r)
		}
		p.fam = "random-int32"
		for i := 0; i < 20000*scale; i++ {
			emitR(int64(int32(p.g.R.Uint32())))
		}
		return p.ops
	}
	return nil
}

func flipCase(b []byte, intn func(int) int) []byte {
	out := append([]byte{}, b...)
	for i, c := range out {
		if intn(2) == 0 {
			if 'a' <= c && c <= 'z' {
				out[i] = c - 32
			} else if 'A' <= c && c <= 'Z' {
				out[i] = c + 32
			}
		}
	}
	return out
}

// ---- the standard library as an independent oracle (C02, C20)

func asciiLower(b []byte) []byte {
	out := append([]byte{}, b...)
	for i, c := range out {
		if 'A' <= c && c <= 'Z' {
			out[i] = c + 32
		}
	}
	return out
}

func b2s(b bool) string {
	if b {
		return "1"
	}
	return "0"
}

func sl(o, l int) string {
	if l == 0 {
		return "(e)"
	}
	return fmt.Sprintf("(%d,%d)", o, l)
}

// stdEval computes the namesake in package bytes/strings (they agree; bytes is used) on the
// arguments, lower-cased first when lower is set, and renders sub-slices by position.
// stdEvalRaw: the standard library's answer on the arguments as they are (no lower-casing): the oracle
// for the Lean models of the namesakes (Model/Std.lean), on arbitrary bytes.
func stdEvalRaw(o impl.Op) string { return stdEval2(o, false, true) }

func stdEval(o impl.Op, lower bool) string { return stdEval2(o, lower, false) }

func stdEval2(o impl.Op, lower, raw bool) string {
	un := func(i int) []byte {
		if i >= len(o.Args) || o.Args[i] == "-" {
			return []byte{}
		}
		b := make([]byte, len(o.Args[i])/2)
		for j := range b {
			v, _ := strconv.ParseUint(o.Args[i][2*j:2*j+2], 16, 8)
			b[j] = byte(v)
		}
		return b
	}
	s := un(0)
	L := func(b []byte) []byte {
		if lower {
			return asciiLower(b)
		}
		return b
	}
	num := func() int { n, _ := strconv.Atoi(o.Args[1]); return n }
	switch o.Fn {
	case "EqualFold":
		if o.Cfg[0] == 'b' {
			return b2s(bytes.EqualFold(s, un(1)))
		}
		return b2s(strings.EqualFold(string(s), string(un(1))))
	case "Compare":
		return strconv.Itoa(bytes.Compare(L(s), L(un(1))))
	case "HasPrefix":
		return b2s(bytes.HasPrefix(L(s), L(un(1))))
	case "HasSuffix":
		return b2s(bytes.HasSuffix(L(s), L(un(1))))
	case "TrimPrefix":
		if bytes.HasPrefix(L(s), L(un(1))) {
			return sl(len(un(1)), len(s)-len(un(1)))
		}
		return sl(0, len(s))
	case "TrimSuffix":
		if bytes.HasSuffix(L(s), L(un(1))) {
			return sl(0, len(s)-len(un(1)))
		}
		return sl(0, len(s))
	case "CutPrefix":
		if bytes.HasPrefix(L(s), L(un(1))) {
			return sl(len(un(1)), len(s)-len(un(1))) + ",1"
		}
		return sl(0, len(s)) + ",0"
	case "CutSuffix":
		if bytes.HasSuffix(L(s), L(un(1))) {
			return sl(0, len(s)-len(un(1))) + ",1"
		}
		return sl(0, len(s)) + ",0"
	case "Index":
		return strconv.Itoa(bytes.Index(L(s), L(un(1))))
	case "LastIndex":
		return strconv.Itoa(bytes.LastIndex(L(s), L(un(1))))
	case "Contains":
		return b2s(bytes.Contains(L(s), L(un(1))))
	case "Count":
		return strconv.Itoa(bytes.Count(L(s), L(un(1))))
	case "Cut":
		i := bytes.Index(L(s), L(un(1)))
		if i < 0 {
			return sl(0, len(s)) + ",(e),0"
		}
		j := i + len(un(1))
		return sl(0, i) + "," + sl(j, len(s)-j) + ",1"
	case "IndexAny":
		return strconv.Itoa(bytes.IndexAny(L(s), string(L(un(1)))))
	case "LastIndexAny":
		return strconv.Itoa(bytes.LastIndexAny(L(s), string(L(un(1)))))
	case "ContainsAny":
		return b2s(bytes.ContainsAny(L(s), string(L(un(1)))))
	case "IndexRune":
		if raw {
			if o.Cfg[0] == 'b' {
				return strconv.Itoa(bytes.IndexRune(s, rune(num())))
			}
			return strconv.Itoa(strings.IndexRune(string(s), rune(num())))
		}
		return strconv.Itoa(bytes.IndexRune(L(s), unicode.ToLower(rune(num()))))
	case "ContainsRune":
		if raw {
			return b2s(bytes.ContainsRune(s, rune(num())))
		}
		return b2s(bytes.ContainsRune(L(s), unicode.ToLower(rune(num()))))
	case "IndexByte", "IndexByteASCII":
		return strconv.Itoa(bytes.IndexByte(L(s), L([]byte{byte(num())})[0]))
	case "LastIndexByte":
		return strconv.Itoa(bytes.LastIndexByte(L(s), L([]byte{byte(num())})[0]))
	}
	return ""
}

// ---- checks over groups of ops (same argument tuple)

func groupChecks(prop string, ops []op, results []res) []violation {
	var out []violation
	// C07 (and everywhere it is cheap): the two packages agree op by op.  Ops are emitted as
	// consecutive (s, b) twins by gen.Ops*.
	if prop == "C07" || prop == "C17" || prop == "C06" || prop == "C15" {
		for i := 0; i+1 < len(ops); i++ {
			a, b := ops[i], ops[i+1]
			if a.Fn == b.Fn && a.Cfg[0] == 's' && b.Cfg[0] == 'b' && strings.Join(a.Args, " ") == strings.Join(b.Args, " ") {
				if results[i].I != results[i+1].I {
					out = append(out, violation{Kind: "parity", Op: a.Line(), I: results[i].I, A: results[i].A, S: results[i].S,
						Note: "bytcase returned " + results[i+1].I, Fam: a.Fam})
				}
			}
		}
	}
	if prop == "C17" {
		out = append(out, identityChecks(ops, results)...)
	}
	return out
}

// identityChecks evaluates the API identities of C17 on the real results of each group.
func identityChecks(ops []op, results []res) []violation {
	var out []violation
	i := 0
	for i < len(ops) {
		j := i
		m := map[string]string{}
		for j < len(ops) && ops[j].Group == ops[i].Group {
			m[ops[j].Fn+"/"+ops[j].Cfg[:1]] = results[j].I
			j++
		}
		for _, pk := range []string{"s", "b"} {
			get := func(fn string) (string, bool) { v, ok := m[fn+"/"+pk]; return v, ok }
			fail := func(note string) {
				out = append(out, violation{Kind: "identity", Op: ops[i].Line(), I: results[i].I, A: results[i].A, S: results[i].S, Note: note + " (pkg " + pk + ")", Fam: ops[i].Fam})
			}
			idx, ok1 := get("Index")
			if ok1 {
				found := idx != "-1"
				if v, ok := get("Contains"); ok && (v == "1") != found {
					fail("Contains != (Index >= 0)")
				}
				if v, ok := get("LastIndex"); ok {
					if (v != "-1") != found {
						fail("(LastIndex >= 0) != (Index >= 0)")
					} else if found {
						a, _ := strconv.Atoi(idx)
						b, _ := strconv.Atoi(v)
						if a > b {
							fail("Index > LastIndex")
						}
					}
				}
				if v, ok := get("Count"); ok && (v != "0") != found {
					fail("(Count > 0) != (Index >= 0)")
				}
				if v, ok := get("Cut"); ok && strings.HasSuffix(v, ",1") != found {
					fail("Cut found != (Index >= 0)")
				}
				if v, ok := get("HasPrefix"); ok && (v == "1") != (idx == "0") {
					fail("HasPrefix != (Index == 0)")
				}
			}
			if hp, ok := get("HasPrefix"); ok {
				if v, ok := get("CutPrefix"); ok && strings.HasSuffix(v, ",1") != (hp == "1") {
					fail("CutPrefix found != HasPrefix")
				}
			}
			if hs, ok := get("HasSuffix"); ok {
				if v, ok := get("CutSuffix"); ok && strings.HasSuffix(v, ",1") != (hs == "1") {
					fail("CutSuffix found != HasSuffix")
				}
				if v, ok := get("TrimSuffix"); ok {
					if c, ok := get("CutSuffix"); ok && !strings.HasPrefix(c, v+",") {
						fail("TrimSuffix and CutSuffix cut at different places")
					}
				}
			}
			if eq, ok := get("EqualFold"); ok {
				if v, ok := get("Compare"); ok && (v == "0") != (eq == "1") {
					fail("EqualFold != (Compare == 0)")
				}
			}
			for _, pr := range [][2]string{{"ContainsAny", "IndexAny"}, {"ContainsRune", "IndexRune"}, {"ContainsNonASCII", "IndexNonASCII"}} {
				if c, ok := get(pr[0]); ok {
					if v, ok := get(pr[1]); ok && (c == "1") != (v != "-1") {
						fail(pr[0] + " != (" + pr[1] + " >= 0)")
					}
				}
			}
		}
		i = j
	}
	return out
}
