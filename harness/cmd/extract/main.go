// extract regenerates lean/SC/Gen/*.lean from the working tree of the repository
// and from the installed Go toolchain's unicode package.
//
//	extract -repo /repo -out /verif/lean/SC/Gen
//
// Everything that is data in strcase (the four hash tables of both table files,
// seeds, shifts, version strings, the _lower tables, named constants, the
// recorded table hashes) is re-read from the source on every run, so that the
// Lean theorems are re-checked against what the source says now.
package main

import (
	"bytes"
	"crypto/sha256"
	"encoding/binary"
	"encoding/json"
	"flag"
	"fmt"
	"go/ast"
	"go/parser"
	"go/token"
	"os"
	"path/filepath"
	"sort"
	"strconv"
	"strings"
	"unicode"
)

func die(format string, a ...any) {
	fmt.Fprintf(os.Stderr, "extract: "+format+"\n", a...)
	os.Exit(2)
}

// ---------- tiny constant evaluator over go/ast ----------

func evalInt(e ast.Expr) (uint64, bool) {
	switch x := e.(type) {
	case *ast.BasicLit:
		switch x.Kind {
		case token.INT:
			v, err := strconv.ParseUint(strings.ReplaceAll(x.Value, "_", ""), 0, 64)
			return v, err == nil
		case token.CHAR:
			r, _, _, err := strconv.UnquoteChar(x.Value[1:len(x.Value)-1], '\'')
			return uint64(r), err == nil
		}
	case *ast.ParenExpr:
		return evalInt(x.X)
	case *ast.BinaryExpr:
		a, ok1 := evalInt(x.X)
		b, ok2 := evalInt(x.Y)
		if !ok1 || !ok2 {
			return 0, false
		}
		switch x.Op {
		case token.ADD:
			return a + b, true
		case token.SUB:
			return a - b, true
		case token.MUL:
			return a * b, true
		case token.SHL:
			return a << b, true
		case token.SHR:
			return a >> b, true
		case token.OR:
			return a | b, true
		case token.AND:
			return a & b, true
		}
	}
	return 0, false
}

type file struct {
	path   string
	f      *ast.File
	consts map[string]ast.Expr
	vars   map[string]ast.Expr
}

func load(path string) *file {
	fset := token.NewFileSet()
	f, err := parser.ParseFile(fset, path, nil, parser.SkipObjectResolution)
	if err != nil {
		die("parse %s: %v", path, err)
	}
	r := &file{path: path, f: f, consts: map[string]ast.Expr{}, vars: map[string]ast.Expr{}}
	for _, d := range f.Decls {
		g, ok := d.(*ast.GenDecl)
		if !ok {
			continue
		}
		for _, s := range g.Specs {
			vs, ok := s.(*ast.ValueSpec)
			if !ok {
				continue
			}
			for i, n := range vs.Names {
				if i < len(vs.Values) {
					if g.Tok == token.CONST {
						r.consts[n.Name] = vs.Values[i]
					} else {
						r.vars[n.Name] = vs.Values[i]
					}
				}
			}
		}
	}
	return r
}

func (f *file) constInt(name string) uint64 {
	e, ok := f.consts[name]
	if !ok {
		die("%s: constant %s not found", f.path, name)
	}
	v, ok := evalInt(e)
	if !ok {
		die("%s: constant %s is not an integer literal expression", f.path, name)
	}
	return v
}

func (f *file) constString(name string) string {
	e, ok := f.consts[name]
	if !ok {
		die("%s: constant %s not found", f.path, name)
	}
	b, ok := e.(*ast.BasicLit)
	if !ok || b.Kind != token.STRING {
		die("%s: constant %s is not a string literal", f.path, name)
	}
	s, err := strconv.Unquote(b.Value)
	if err != nil {
		die("%s: %v", f.path, err)
	}
	return s
}

// flat returns the integer leaves of a (possibly nested) composite literal element.
func flat(e ast.Expr, out []uint64, path string) []uint64 {
	if c, ok := e.(*ast.CompositeLit); ok {
		for _, el := range c.Elts {
			if kv, ok := el.(*ast.KeyValueExpr); ok {
				el = kv.Value
			}
			out = flat(el, out, path)
		}
		return out
	}
	v, ok := evalInt(e)
	if !ok {
		die("%s: non-constant table element", path)
	}
	return append(out, v)
}

type entry struct {
	slot uint64
	vals []uint64
}

// table reads `var name = [N]T{ slot: {...}, ... }`; returns N and the keyed entries.
func (f *file) table(name string, width int) (uint64, []entry) {
	e, ok := f.vars[name]
	if !ok {
		die("%s: table %s not found", f.path, name)
	}
	c, ok := e.(*ast.CompositeLit)
	if !ok {
		die("%s: %s is not a composite literal", f.path, name)
	}
	at, ok := c.Type.(*ast.ArrayType)
	if !ok || at.Len == nil {
		die("%s: %s is not an array", f.path, name)
	}
	n, ok := evalInt(at.Len)
	if !ok {
		die("%s: %s has a non-literal length", f.path, name)
	}
	var ents []entry
	next := uint64(0)
	for _, el := range c.Elts {
		slot := next
		val := el
		if kv, ok := el.(*ast.KeyValueExpr); ok {
			s, ok := evalInt(kv.Key)
			if !ok {
				die("%s: %s has a non-literal key", f.path, name)
			}
			slot = s
			val = kv.Value
		}
		next = slot + 1
		vals := flat(val, nil, f.path+":"+name)
		for len(vals) < width {
			vals = append(vals, 0)
		}
		if len(vals) != width {
			die("%s: %s entry at slot %d has %d values, want %d", f.path, name, slot, len(vals), width)
		}
		ents = append(ents, entry{slot, vals})
	}
	sort.Slice(ents, func(i, j int) bool { return ents[i].slot < ents[j].slot })
	for i := 1; i < len(ents); i++ {
		if ents[i].slot == ents[i-1].slot {
			die("%s: %s has duplicate slot %d", f.path, name, ents[i].slot)
		}
	}
	return n, ents
}

// ---------- BST literal emission ----------

func treeType(width int) string {
	switch width {
	case 2:
		return "T"
	case 3:
		return "T3"
	case 4:
		return "T4"
	}
	panic("width")
}

func emitTree(w *bytes.Buffer, name, prefix string, width int, ents []entry) {
	ty := treeType(width)
	cnt := 0
	var defs []string
	var build func(lo, hi int) string
	build = func(lo, hi int) string {
		if lo >= hi {
			return ".leaf"
		}
		mid := (lo + hi) / 2
		l := build(lo, mid)
		r := build(mid+1, hi)
		var sb strings.Builder
		sb.WriteString("(.node ")
		sb.WriteString(l)
		fmt.Fprintf(&sb, " %d", ents[mid].slot)
		for _, v := range ents[mid].vals {
			fmt.Fprintf(&sb, " %d", v)
		}
		sb.WriteString(" ")
		sb.WriteString(r)
		sb.WriteString(")")
		if n := hi - lo; 16 <= n && n < 48 {
			nm := fmt.Sprintf("%s%d", prefix, cnt)
			cnt++
			defs = append(defs, fmt.Sprintf("def %s : %s := %s", nm, ty, sb.String()))
			return nm
		}
		return sb.String()
	}
	root := build(0, len(ents))
	for _, d := range defs {
		w.WriteString(d)
		w.WriteString("\n")
	}
	fmt.Fprintf(w, "def %s : %s := %s\n", name, ty, root)
	fmt.Fprintf(w, "def %sCount : Nat := %d\n", name, len(ents))
}

const header = "-- GENERATED by /verif/harness/cmd/extract from the repository working tree. DO NOT EDIT.\n"

func writeIfChanged(path string, data []byte) {
	old, err := os.ReadFile(path)
	if err == nil && bytes.Equal(old, data) {
		return
	}
	tmp := path + ".tmp"
	if err := os.WriteFile(tmp, data, 0o644); err != nil {
		die("%v", err)
	}
	if err := os.Rename(tmp, path); err != nil {
		die("%v", err)
	}
}

type tblInfo struct {
	cf []entry
}

func genTables(repo, out, goFile, ns, leanFile string) tblInfo {
	f := load(filepath.Join(repo, "internal/tables", goFile))
	var w bytes.Buffer
	w.WriteString(header)
	fmt.Fprintf(&w, "-- source: internal/tables/%s\nimport SC.Model.Tree\nnamespace Gen.%s\n", goFile, ns)
	fmt.Fprintf(&w, "def unicodeVersion : String := %q\n", f.constString("UnicodeVersion"))
	type spec struct {
		goName, lean string
		width        int
	}
	var info tblInfo
	for _, s := range []spec{
		{"_CaseFolds", "cf", 2},
		{"_UpperLower", "ul", 2},
		{"_FoldMap", "fm", 4},
		{"_FoldMapExcludingUpperLower", "fme", 3},
	} {
		n, ents := f.table(s.goName, s.width)
		fmt.Fprintf(&w, "def %sSeed : Nat := %d\n", s.lean, f.constInt(s.goName+"Seed"))
		fmt.Fprintf(&w, "def %sShift : Nat := %d\n", s.lean, f.constInt(s.goName+"Shift"))
		fmt.Fprintf(&w, "def %sSize : Nat := %d\n", s.lean, n)
		emitTree(&w, s.lean+"Tree", s.lean+"T", s.width, ents)
		if s.lean == "cf" {
			info.cf = ents
		}
	}
	fmt.Fprintf(&w, "end Gen.%s\n", ns)
	writeIfChanged(filepath.Join(out, leanFile), w.Bytes())
	return info
}

// sha256 over the (From,To) pairs sorted by From, little endian, as hashCaseFolds in
// internal/gen/gentables does.
func hashPairs(ents []entry) string {
	type p struct{ a, b uint32 }
	var ps []p
	for _, e := range ents {
		ps = append(ps, p{uint32(e.vals[0]), uint32(e.vals[1])})
	}
	sort.Slice(ps, func(i, j int) bool { return ps[i].a < ps[j].a })
	var b []byte
	for _, q := range ps {
		b = binary.LittleEndian.AppendUint32(b, q.a)
		b = binary.LittleEndian.AppendUint32(b, q.b)
	}
	return fmt.Sprintf("%x", sha256.Sum256(b))
}

func natList(vs []uint64) string {
	var sb strings.Builder
	sb.WriteString("[")
	for i, v := range vs {
		if i > 0 {
			sb.WriteString(", ")
		}
		fmt.Fprintf(&sb, "%d", v)
	}
	sb.WriteString("]")
	return sb.String()
}

func genConsts(repo, out string, i121, i116 tblInfo) {
	var w bytes.Buffer
	w.WriteString(header)
	w.WriteString("namespace Gen.Consts\n")
	for _, p := range []struct{ file, ns string }{{"strcase.go", "str"}, {"bytcase/bytcase.go", "byt"}} {
		f := load(filepath.Join(repo, p.file))
		e, ok := f.vars["_lower"]
		if !ok {
			die("%s: _lower not found", p.file)
		}
		vals := flat(e, nil, p.file+":_lower")
		fmt.Fprintf(&w, "def %sLower : List Nat := %s\n", p.ns, natList(vals))
		fmt.Fprintf(&w, "def %sMaxBruteForce : Nat := %d\n", p.ns, f.constInt("maxBruteForce"))
		fmt.Fprintf(&w, "def %sMaxLen : Nat := %d\n", p.ns, f.constInt("maxLen"))
		fmt.Fprintf(&w, "def %sPrimeRK : Nat := %d\n", p.ns, f.constInt("primeRK"))
	}
	// recorded hashes
	data, err := os.ReadFile(filepath.Join(repo, ".tables.json"))
	if err != nil {
		die("%v", err)
	}
	var tj map[string]struct {
		UnicodeVersion string `json:"unicode_version"`
		CaseFoldHash   string `json:"case_fold_hash"`
	}
	if err := json.Unmarshal(data, &tj); err != nil {
		die(".tables.json: %v", err)
	}
	fmt.Fprintf(&w, "def recordedVersion121 : String := %q\n", tj["tables_go121.go"].UnicodeVersion)
	fmt.Fprintf(&w, "def recordedVersion116 : String := %q\n", tj["tables_go116.go"].UnicodeVersion)
	fmt.Fprintf(&w, "def recordedHash121 : String := %q\n", tj["tables_go121.go"].CaseFoldHash)
	fmt.Fprintf(&w, "def recordedHash116 : String := %q\n", tj["tables_go116.go"].CaseFoldHash)
	fmt.Fprintf(&w, "def computedHash121 : String := %q\n", hashPairs(i121.cf))
	fmt.Fprintf(&w, "def computedHash116 : String := %q\n", hashPairs(i116.cf))
	w.WriteString("end Gen.Consts\n")
	writeIfChanged(filepath.Join(out, "Consts.lean"), w.Bytes())
}

// genUnicode dumps the toolchain's unicode package: SimpleFold orbits, upper/lower.
func genUnicode(out string) {
	var orb, next, ul []entry
	for r := rune(0); r <= unicode.MaxRune; r++ {
		if n := unicode.SimpleFold(r); n != r {
			m := r
			for x := n; x != r; x = unicode.SimpleFold(x) {
				if x < m {
					m = x
				}
			}
			orb = append(orb, entry{uint64(r), []uint64{uint64(m), 1}})
			next = append(next, entry{uint64(r), []uint64{uint64(n), 1}})
		}
		u, l := unicode.ToUpper(r), unicode.ToLower(r)
		if u != r || l != r {
			ul = append(ul, entry{uint64(r), []uint64{uint64(u), uint64(l)}})
		}
	}
	var w bytes.Buffer
	w.WriteString(header)
	w.WriteString("-- source: package unicode of the installed Go toolchain\nimport SC.Model.Tree\nnamespace Gen.Uni\n")
	fmt.Fprintf(&w, "def version : String := %q\n", unicode.Version)
	emitTree(&w, "orbTree", "orbT", 2, orb)
	emitTree(&w, "nextTree", "nxT", 2, next)
	emitTree(&w, "ulTree", "uulT", 2, ul)
	w.WriteString("end Gen.Uni\n")
	writeIfChanged(filepath.Join(out, "Unicode.lean"), w.Bytes())
}

func main() {
	repo := flag.String("repo", "/repo", "repository root")
	out := flag.String("out", "", "output directory (lean/SC/Gen)")
	flag.Parse()
	if *out == "" {
		die("-out required")
	}
	if err := os.MkdirAll(*out, 0o755); err != nil {
		die("%v", err)
	}
	i121 := genTables(*repo, *out, "tables_go121.go", "T121", "Tables121.lean")
	i116 := genTables(*repo, *out, "tables_go116.go", "T116", "Tables116.lean")
	genConsts(*repo, *out, i121, i116)
	genUnicode(*out)
}
