// Package api is a uniform call table over every exported function of strcase and bytcase.
// Calling through it performs no allocation of its own: arguments are prepared beforehand in
// both string and []byte form, results go into fields of the same struct.  Taking the functions
// as values also forces the linker to keep a standalone compiled copy of each of them, which
// is what the call-graph extractor (C05) reads.
package api

import (
	"github.com/charlievieth/strcase"
	"github.com/charlievieth/strcase/bytcase"
)

// Args holds the arguments (both forms) and receives the results.
type Args struct {
	S, T   string
	SB, TB []byte
	R      rune
	C      byte
	// results
	I        int
	B        bool
	RS1, RS2 string
	RB1, RB2 []byte
}

const (
	K2    = iota // (s, t)
	KRune        // (s, r)
	KByte        // (s, c)
	K1           // (s)
)

type Fn struct {
	Name string
	Byt  bool
	Kind int
	Call func(a *Args)
	// Ret says which result fields the function sets: "i", "b", "s" (one slice), "ss" (two slices + bool), "sb" (slice + bool)
	Ret string
}

var Table = []Fn{
	{"Compare", false, K2, func(a *Args) { a.I = strcase.Compare(a.S, a.T) }, "i"},
	{"EqualFold", false, K2, func(a *Args) { a.B = strcase.EqualFold(a.S, a.T) }, "b"},
	{"HasPrefix", false, K2, func(a *Args) { a.B = strcase.HasPrefix(a.S, a.T) }, "b"},
	{"TrimPrefix", false, K2, func(a *Args) { a.RS1 = strcase.TrimPrefix(a.S, a.T) }, "s"},
	{"HasSuffix", false, K2, func(a *Args) { a.B = strcase.HasSuffix(a.S, a.T) }, "b"},
	{"TrimSuffix", false, K2, func(a *Args) { a.RS1 = strcase.TrimSuffix(a.S, a.T) }, "s"},
	{"Index", false, K2, func(a *Args) { a.I = strcase.Index(a.S, a.T) }, "i"},
	{"LastIndex", false, K2, func(a *Args) { a.I = strcase.LastIndex(a.S, a.T) }, "i"},
	{"IndexByte", false, KByte, func(a *Args) { a.I = strcase.IndexByte(a.S, a.C) }, "i"},
	{"IndexByteASCII", false, KByte, func(a *Args) { a.I = strcase.IndexByteASCII(a.S, a.C) }, "i"},
	{"LastIndexByte", false, KByte, func(a *Args) { a.I = strcase.LastIndexByte(a.S, a.C) }, "i"},
	{"IndexRune", false, KRune, func(a *Args) { a.I = strcase.IndexRune(a.S, a.R) }, "i"},
	{"Count", false, K2, func(a *Args) { a.I = strcase.Count(a.S, a.T) }, "i"},
	{"Contains", false, K2, func(a *Args) { a.B = strcase.Contains(a.S, a.T) }, "b"},
	{"ContainsAny", false, K2, func(a *Args) { a.B = strcase.ContainsAny(a.S, a.T) }, "b"},
	{"ContainsRune", false, KRune, func(a *Args) { a.B = strcase.ContainsRune(a.S, a.R) }, "b"},
	{"IndexAny", false, K2, func(a *Args) { a.I = strcase.IndexAny(a.S, a.T) }, "i"},
	{"LastIndexAny", false, K2, func(a *Args) { a.I = strcase.LastIndexAny(a.S, a.T) }, "i"},
	{"Cut", false, K2, func(a *Args) { a.RS1, a.RS2, a.B = strcase.Cut(a.S, a.T) }, "ss"},
	{"CutPrefix", false, K2, func(a *Args) { a.RS1, a.B = strcase.CutPrefix(a.S, a.T) }, "sb"},
	{"CutSuffix", false, K2, func(a *Args) { a.RS1, a.B = strcase.CutSuffix(a.S, a.T) }, "sb"},
	{"IndexNonASCII", false, K1, func(a *Args) { a.I = strcase.IndexNonASCII(a.S) }, "i"},
	{"ContainsNonASCII", false, K1, func(a *Args) { a.B = strcase.ContainsNonASCII(a.S) }, "b"},

	{"Compare", true, K2, func(a *Args) { a.I = bytcase.Compare(a.SB, a.TB) }, "i"},
	{"EqualFold", true, K2, func(a *Args) { a.B = bytcase.EqualFold(a.SB, a.TB) }, "b"},
	{"HasPrefix", true, K2, func(a *Args) { a.B = bytcase.HasPrefix(a.SB, a.TB) }, "b"},
	{"TrimPrefix", true, K2, func(a *Args) { a.RB1 = bytcase.TrimPrefix(a.SB, a.TB) }, "s"},
	{"HasSuffix", true, K2, func(a *Args) { a.B = bytcase.HasSuffix(a.SB, a.TB) }, "b"},
	{"TrimSuffix", true, K2, func(a *Args) { a.RB1 = bytcase.TrimSuffix(a.SB, a.TB) }, "s"},
	{"Index", true, K2, func(a *Args) { a.I = bytcase.Index(a.SB, a.TB) }, "i"},
	{"LastIndex", true, K2, func(a *Args) { a.I = bytcase.LastIndex(a.SB, a.TB) }, "i"},
	{"IndexByte", true, KByte, func(a *Args) { a.I = bytcase.IndexByte(a.SB, a.C) }, "i"},
	{"IndexByteASCII", true, KByte, func(a *Args) { a.I = bytcase.IndexByteASCII(a.SB, a.C) }, "i"},
	{"LastIndexByte", true, KByte, func(a *Args) { a.I = bytcase.LastIndexByte(a.SB, a.C) }, "i"},
	{"IndexRune", true, KRune, func(a *Args) { a.I = bytcase.IndexRune(a.SB, a.R) }, "i"},
	{"Count", true, K2, func(a *Args) { a.I = bytcase.Count(a.SB, a.TB) }, "i"},
	{"Contains", true, K2, func(a *Args) { a.B = bytcase.Contains(a.SB, a.TB) }, "b"},
	{"ContainsAny", true, K2, func(a *Args) { a.B = bytcase.ContainsAny(a.SB, a.TB) }, "b"},
	{"ContainsRune", true, KRune, func(a *Args) { a.B = bytcase.ContainsRune(a.SB, a.R) }, "b"},
	{"IndexAny", true, K2, func(a *Args) { a.I = bytcase.IndexAny(a.SB, a.TB) }, "i"},
	{"LastIndexAny", true, K2, func(a *Args) { a.I = bytcase.LastIndexAny(a.SB, a.TB) }, "i"},
	{"Cut", true, K2, func(a *Args) { a.RB1, a.RB2, a.B = bytcase.Cut(a.SB, a.TB) }, "ss"},
	{"CutPrefix", true, K2, func(a *Args) { a.RB1, a.B = bytcase.CutPrefix(a.SB, a.TB) }, "sb"},
	{"CutSuffix", true, K2, func(a *Args) { a.RB1, a.B = bytcase.CutSuffix(a.SB, a.TB) }, "sb"},
	{"IndexNonASCII", true, K1, func(a *Args) { a.I = bytcase.IndexNonASCII(a.SB) }, "i"},
	{"ContainsNonASCII", true, K1, func(a *Args) { a.B = bytcase.ContainsNonASCII(a.SB) }, "b"},
}

// Values keeps a function value of every exported function alive (see the package comment).
var Values = []any{
	strcase.Compare, strcase.EqualFold, strcase.HasPrefix, strcase.TrimPrefix, strcase.HasSuffix, strcase.TrimSuffix,
	strcase.Index, strcase.LastIndex, strcase.IndexByte, strcase.IndexByteASCII, strcase.LastIndexByte, strcase.IndexRune,
	strcase.Count, strcase.Contains, strcase.ContainsAny, strcase.ContainsRune, strcase.IndexAny, strcase.LastIndexAny,
	strcase.Cut, strcase.CutPrefix, strcase.CutSuffix, strcase.IndexNonASCII, strcase.ContainsNonASCII,
	bytcase.Compare, bytcase.EqualFold, bytcase.HasPrefix, bytcase.TrimPrefix, bytcase.HasSuffix, bytcase.TrimSuffix,
	bytcase.Index, bytcase.LastIndex, bytcase.IndexByte, bytcase.IndexByteASCII, bytcase.LastIndexByte, bytcase.IndexRune,
	bytcase.Count, bytcase.Contains, bytcase.ContainsAny, bytcase.ContainsRune, bytcase.IndexAny, bytcase.LastIndexAny,
	bytcase.Cut, bytcase.CutPrefix, bytcase.CutSuffix, bytcase.IndexNonASCII, bytcase.ContainsNonASCII,
}
