// Package impl runs the REAL strcase / bytcase code on one op of the line protocol and renders
// the result in the canonical form the Lean driver uses.
package impl

import (
	"encoding/hex"
	"fmt"
	"runtime"
	"strconv"
	"strings"
	"unsafe"

	"github.com/charlievieth/strcase"
	"github.com/charlievieth/strcase/bytcase"
	"github.com/charlievieth/strcase/verifhooks"
)

// Op is one line of the protocol.
type Op struct {
	Fn   string
	Cfg  string   // "sn", "bn", "sg", "bg" (+ "a")
	Args []string // hex byte strings ("-" = empty) or decimal integers
}

func (o Op) Line() string {
	return o.Fn + " " + o.Cfg + " " + strings.Join(o.Args, " ")
}

// Hex renders a byte string as a protocol argument.
func Hex(b []byte) string {
	if len(b) == 0 {
		return "-"
	}
	return hex.EncodeToString(b)
}

func unhex(s string) []byte {
	if s == "-" || s == "" {
		return []byte{}
	}
	b, err := hex.DecodeString(s)
	if err != nil {
		panic("bad hex in op: " + s)
	}
	return b
}

// CfgSuffix is the configuration letter(s) of this binary: n/g for NativeIndex, a for arm64.
func CfgSuffix() string {
	s := "g"
	if verifhooks.NativeIndex {
		s = "n"
	}
	if runtime.GOARCH == "arm64" {
		s += "a"
	}
	return s
}

func b2s(b bool) string {
	if b {
		return "1"
	}
	return "0"
}

func sliceS(base, sub string) string {
	if len(sub) == 0 {
		return "(e)"
	}
	if len(base) == 0 {
		return "(copy)"
	}
	off := int(uintptr(unsafe.Pointer(unsafe.StringData(sub))) - uintptr(unsafe.Pointer(unsafe.StringData(base))))
	if off < 0 || off+len(sub) > len(base) {
		return "(copy)"
	}
	return fmt.Sprintf("(%d,%d)", off, len(sub))
}

func sliceB(base, sub []byte) string {
	if len(sub) == 0 {
		return "(e)"
	}
	if len(base) == 0 {
		return "(copy)"
	}
	off := int(uintptr(unsafe.Pointer(unsafe.SliceData(sub))) - uintptr(unsafe.Pointer(unsafe.SliceData(base))))
	if off < 0 || off+len(sub) > len(base) {
		return "(copy)"
	}
	return fmt.Sprintf("(%d,%d)", off, len(sub))
}

func in(i, n int) string { return strconv.Itoa(i) + "," + strconv.Itoa(n) }

// Eval runs op on the real code.  A panic is rendered as PANIC.
func Eval(o Op) (res string) {
	defer func() {
		if r := recover(); r != nil {
			res = "PANIC"
		}
	}()
	return eval(o)
}

func eval(o Op) string {
	byt := o.Cfg[0] == 'b'
	arg := func(i int) string {
		if i < len(o.Args) {
			return o.Args[i]
		}
		return "-"
	}
	var a1 []byte
	var s1 string
	num := func(i int) int {
		n, err := strconv.ParseInt(arg(i), 10, 64)
		if err != nil {
			panic("bad int in op: " + arg(i))
		}
		return int(n)
	}
	isTable := false
	switch o.Fn {
	case "CaseFold", "FoldMap", "FoldMapExcludingUpperLower", "ToUpperLower":
		isTable = true
	}
	if !isTable {
		a1 = unhex(arg(0))
		s1 = string(a1)
	}
	bb := func() []byte { return unhex(arg(1)) }
	switch o.Fn {
	case "Compare":
		if byt {
			return strconv.Itoa(bytcase.Compare(a1, bb()))
		}
		return strconv.Itoa(strcase.Compare(s1, string(bb())))
	case "EqualFold":
		if byt {
			return b2s(bytcase.EqualFold(a1, bb()))
		}
		return b2s(strcase.EqualFold(s1, string(bb())))
	case "HasPrefix":
		if byt {
			return b2s(bytcase.HasPrefix(a1, bb()))
		}
		return b2s(strcase.HasPrefix(s1, string(bb())))
	case "HasSuffix":
		if byt {
			return b2s(bytcase.HasSuffix(a1, bb()))
		}
		return b2s(strcase.HasSuffix(s1, string(bb())))
	case "TrimPrefix":
		if byt {
			return sliceB(a1, bytcase.TrimPrefix(a1, bb()))
		}
		return sliceS(s1, strcase.TrimPrefix(s1, string(bb())))
	case "TrimSuffix":
		if byt {
			return sliceB(a1, bytcase.TrimSuffix(a1, bb()))
		}
		return sliceS(s1, strcase.TrimSuffix(s1, string(bb())))
	case "CutPrefix":
		if byt {
			r, ok := bytcase.CutPrefix(a1, bb())
			return sliceB(a1, r) + "," + b2s(ok)
		}
		r, ok := strcase.CutPrefix(s1, string(bb()))
		return sliceS(s1, r) + "," + b2s(ok)
	case "CutSuffix":
		if byt {
			r, ok := bytcase.CutSuffix(a1, bb())
			return sliceB(a1, r) + "," + b2s(ok)
		}
		r, ok := strcase.CutSuffix(s1, string(bb()))
		return sliceS(s1, r) + "," + b2s(ok)
	case "Index":
		if byt {
			return strconv.Itoa(bytcase.Index(a1, bb()))
		}
		return strconv.Itoa(strcase.Index(s1, string(bb())))
	case "LastIndex":
		if byt {
			return strconv.Itoa(bytcase.LastIndex(a1, bb()))
		}
		return strconv.Itoa(strcase.LastIndex(s1, string(bb())))
	case "Contains":
		if byt {
			return b2s(bytcase.Contains(a1, bb()))
		}
		return b2s(strcase.Contains(s1, string(bb())))
	case "Count":
		if byt {
			return strconv.Itoa(bytcase.Count(a1, bb()))
		}
		return strconv.Itoa(strcase.Count(s1, string(bb())))
	case "Cut":
		if byt {
			x, y, ok := bytcase.Cut(a1, bb())
			return sliceB(a1, x) + "," + sliceB(a1, y) + "," + b2s(ok)
		}
		x, y, ok := strcase.Cut(s1, string(bb()))
		return sliceS(s1, x) + "," + sliceS(s1, y) + "," + b2s(ok)
	case "IndexAny":
		if byt {
			return strconv.Itoa(bytcase.IndexAny(a1, bb()))
		}
		return strconv.Itoa(strcase.IndexAny(s1, string(bb())))
	case "LastIndexAny":
		if byt {
			return strconv.Itoa(bytcase.LastIndexAny(a1, bb()))
		}
		return strconv.Itoa(strcase.LastIndexAny(s1, string(bb())))
	case "ContainsAny":
		if byt {
			return b2s(bytcase.ContainsAny(a1, bb()))
		}
		return b2s(strcase.ContainsAny(s1, string(bb())))
	case "IndexRune":
		if byt {
			return strconv.Itoa(bytcase.IndexRune(a1, rune(num(1))))
		}
		return strconv.Itoa(strcase.IndexRune(s1, rune(num(1))))
	case "ContainsRune":
		if byt {
			return b2s(bytcase.ContainsRune(a1, rune(num(1))))
		}
		return b2s(strcase.ContainsRune(s1, rune(num(1))))
	case "IndexByte":
		if byt {
			return strconv.Itoa(bytcase.IndexByte(a1, byte(num(1))))
		}
		return strconv.Itoa(strcase.IndexByte(s1, byte(num(1))))
	case "LastIndexByte":
		if byt {
			return strconv.Itoa(bytcase.LastIndexByte(a1, byte(num(1))))
		}
		return strconv.Itoa(strcase.LastIndexByte(s1, byte(num(1))))
	case "IndexByteASCII":
		if byt {
			return strconv.Itoa(bytcase.IndexByteASCII(a1, byte(num(1))))
		}
		return strconv.Itoa(strcase.IndexByteASCII(s1, byte(num(1))))
	case "IndexNonASCII":
		if byt {
			return strconv.Itoa(bytcase.IndexNonASCII(a1))
		}
		return strconv.Itoa(strcase.IndexNonASCII(s1))
	case "ContainsNonASCII":
		if byt {
			return b2s(bytcase.ContainsNonASCII(a1))
		}
		return b2s(strcase.ContainsNonASCII(s1))

	// ---- unexported strategies through the hooks
	case "hasPrefixUnicode":
		var x, y bool
		if byt {
			x, y = bytcase.VerifHasPrefixUnicode(a1, bb())
		} else {
			x, y = strcase.VerifHasPrefixUnicode(s1, string(bb()))
		}
		return b2s(x) + "," + b2s(y)
	case "hasSuffixUnicode":
		var x bool
		var i int
		if byt {
			x, i = bytcase.VerifHasSuffixUnicode(a1, bb())
		} else {
			x, i = strcase.VerifHasSuffixUnicode(s1, string(bb()))
		}
		return b2s(x) + "," + strconv.Itoa(i)
	case "bruteForceIndexUnicode":
		if byt {
			return strconv.Itoa(bytcase.VerifBruteForceIndexUnicode(a1, bb()))
		}
		return strconv.Itoa(strcase.VerifBruteForceIndexUnicode(s1, string(bb())))
	case "indexRabinKarpUnicode":
		if byt {
			return strconv.Itoa(bytcase.VerifIndexRabinKarpUnicode(a1, bb()))
		}
		return strconv.Itoa(strcase.VerifIndexRabinKarpUnicode(s1, string(bb())))
	case "indexRabinKarpRevUnicode":
		if byt {
			return strconv.Itoa(bytcase.VerifIndexRabinKarpRevUnicode(a1, bb()))
		}
		return strconv.Itoa(strcase.VerifIndexRabinKarpRevUnicode(s1, string(bb())))
	case "indexRuneCase":
		if byt {
			return strconv.Itoa(bytcase.VerifIndexRuneCase(a1, rune(num(1))))
		}
		return strconv.Itoa(strcase.VerifIndexRuneCase(s1, rune(num(1))))
	case "indexRune":
		if byt {
			return in(bytcase.VerifIndexRune(a1, rune(num(1))))
		}
		return in(strcase.VerifIndexRune(s1, rune(num(1))))
	case "indexRune2":
		if byt {
			return in(bytcase.VerifIndexRune2(a1, rune(num(1)), rune(num(2))))
		}
		return in(strcase.VerifIndexRune2(s1, rune(num(1)), rune(num(2))))
	case "lastIndexRune":
		if byt {
			return strconv.Itoa(bytcase.VerifLastIndexRune(a1, rune(num(1))))
		}
		return strconv.Itoa(strcase.VerifLastIndexRune(s1, rune(num(1))))
	case "indexByte":
		if byt {
			return in(bytcase.VerifIndexByte(a1, byte(num(1))))
		}
		return in(strcase.VerifIndexByte(s1, byte(num(1))))
	case "nonLetterASCII":
		if byt {
			return b2s(bytcase.VerifNonLetterASCII(a1))
		}
		return b2s(strcase.VerifNonLetterASCII(s1))
	case "containsKelvin":
		if byt {
			return b2s(bytcase.VerifContainsKelvin(a1))
		}
		return b2s(strcase.VerifContainsKelvin(s1))
	case "countRune":
		if byt {
			return strconv.Itoa(bytcase.VerifCountRune(a1, rune(num(1))))
		}
		return strconv.Itoa(strcase.VerifCountRune(s1, rune(num(1))))
	case "hashStrUnicode", "hashStrRevUnicode":
		var h, p uint32
		var n int
		switch {
		case o.Fn == "hashStrUnicode" && byt:
			h, p, n = bytcase.VerifHashStrUnicode(a1)
		case o.Fn == "hashStrUnicode":
			h, p, n = strcase.VerifHashStrUnicode(s1)
		case byt:
			h, p, n = bytcase.VerifHashStrRevUnicode(a1)
		default:
			h, p, n = strcase.VerifHashStrRevUnicode(s1)
		}
		return fmt.Sprintf("%d,%d,%d", h, p, n)
	case "makeASCIISet":
		var as [8]uint32
		var ok bool
		if byt {
			as, ok = bytcase.VerifMakeASCIISet(a1, bb())
		} else {
			as, ok = strcase.VerifMakeASCIISet(s1, string(bb()))
		}
		var sb strings.Builder
		for _, w := range as {
			sb.WriteString(strconv.FormatUint(uint64(w), 10))
			sb.WriteByte(',')
		}
		sb.WriteString(b2s(ok))
		return sb.String()

	// ---- internal/tables
	case "CaseFold":
		return strconv.Itoa(int(verifhooks.CaseFold(rune(num(0)))))
	case "FoldMap":
		p := verifhooks.FoldMap(rune(num(0)))
		if p == nil {
			return "nil"
		}
		return fmt.Sprintf("%d,%d,%d,%d", p[0], p[1], p[2], p[3])
	case "FoldMapExcludingUpperLower":
		p := verifhooks.FoldMapExcludingUpperLower(rune(num(0)))
		return fmt.Sprintf("%d,%d", p[0], p[1])
	case "ToUpperLower":
		u, l, ok := verifhooks.ToUpperLower(rune(num(0)))
		return fmt.Sprintf("%d,%d,%s", u, l, b2s(ok))

	// ---- internal/bytealg
	case "kIndexByte":
		if byt {
			return strconv.Itoa(verifhooks.IndexByte(a1, byte(num(1))))
		}
		return strconv.Itoa(verifhooks.IndexByteString(s1, byte(num(1))))
	case "kCount":
		if byt {
			return strconv.Itoa(verifhooks.Count(a1, byte(num(1))))
		}
		return strconv.Itoa(verifhooks.CountString(s1, byte(num(1))))
	case "kIndexNonASCII":
		if byt {
			return strconv.Itoa(verifhooks.IndexByteNonASCII(a1))
		}
		return strconv.Itoa(verifhooks.IndexNonASCII(s1))
	}
	return "bad-op"
}
