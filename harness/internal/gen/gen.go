// Package gen holds the input generators of the correspondence check.  Every random choice
// derives from one PRNG seeded with VERIF_SEED, so a run replays exactly.
package gen

import (
	"math/rand"
	"strconv"
	"unicode"
	"unicode/utf8"

	"verif/harness/internal/impl"
)

// Orbit returns the simple-folding orbit of r (toolchain's unicode package), r first.
func Orbit(r rune) []rune {
	o := []rune{r}
	for x := unicode.SimpleFold(r); x != r; x = unicode.SimpleFold(x) {
		o = append(o, x)
	}
	return o
}

// cased runes: one representative per fold-width class and per orbit shape
var casedRunes = []rune{
	'a', 'A', 'z', 'Z', 'k', 'K', 0x212A, 's', 'S', 0x17F, 'i', 'I', 0x130, 0x131,
	0xDF, 0x1E9E, // ß ẞ (2:3)
	0x23A, 0x2C65, // Ⱥ ⱥ (2:3)
	0x3B9, 0x1FBE, 0x345, 0x399, // ι ι ͅ Ι (2,3,2,2)
	0x10400, 0x10428, // 𐐀 𐐨 (4:4)
	0x1C5, 0x1C4, 0x1C6, // ǅ Ǆ ǆ
	0xB5, 0x3BC, 0x39C, // µ μ Μ
	0x3B8, 0x3D1, 0x3F4, 0x398, // θ ϑ ϴ Θ
	0x432, 0x412, 0x1C80, // в В ᲀ
	0xE5, 0xC5, 0x212B, // å Å Å
	0xE9, 0xC9, // é É
	0x3C3, 0x3C2, 0x3A3, // σ ς Σ
	0x1E61, 0x1E60, 0x1E9B, // ṡ Ṡ ẛ
	0xA64B, 0xA64A, 0x1C88, // ꙋ Ꙋ ᲈ
	0x2C00, 0x2C30, // Ⰰ ⰰ (3:3)
	0xFF21, 0xFF41, // Ａ ａ
	0x1E921, 0x1E943, // 𞤡 𞥃
}

var caselessRunes = []rune{
	'0', '9', ' ', '-', '.', '_', '@', '[', '`', '{', 0x7F, 0x00,
	0xBF, 0xD7, 0xF7, // ¿ × ÷
	0x4E16, 0x754C, 0x3042, // 世 界 あ
	0x1F600, 0x1F4A9, // 😀 💩
	0xFFFD, 0x80, 0x7FF, 0x800, 0xFFFF, 0x10000, 0x10FFFF, 0xD7FF, 0xE000,
}

// ill-formed byte sequences
var invalidSeqs = [][]byte{
	{0x80}, {0xBF}, {0xFF}, {0xFE}, {0xC0}, {0xC1}, {0xF5},
	{0xC2},                   // truncated 2
	{0xE4, 0xB8},             // truncated 3
	{0xE2, 0x84},             // truncated Kelvin
	{0xF0, 0x9F, 0x98},       // truncated 4
	{0xC0, 0x80},             // overlong
	{0xE0, 0x80, 0x80},       // overlong 3
	{0xED, 0xA0, 0x80},       // surrogate
	{0xF4, 0x90, 0x80, 0x80}, // > U+10FFFF
	{0xAA}, {0x84},           // stray continuation bytes of Kelvin
}

// G is a generator context.
type G struct {
	R        *rand.Rand
	Valid    bool // only well-formed UTF-8
	Scale    int  // 1 = quick, larger = thorough
	atomsV   [][]byte
	atomsAll [][]byte
}

func New(seed int64, valid bool, scale int) *G {
	g := &G{R: rand.New(rand.NewSource(seed)), Valid: valid, Scale: scale}
	for _, r := range casedRunes {
		g.atomsV = append(g.atomsV, []byte(string(r)))
	}
	for _, r := range caselessRunes {
		g.atomsV = append(g.atomsV, []byte(string(r)))
	}
	g.atomsAll = append(g.atomsAll, g.atomsV...)
	g.atomsAll = append(g.atomsAll, invalidSeqs...)
	return g
}

func (g *G) Atoms() [][]byte {
	if g.Valid {
		return g.atomsV
	}
	return g.atomsAll
}

func (g *G) atom() []byte {
	a := g.Atoms()
	// bias: cased runes most of the time
	if g.R.Intn(10) < 6 {
		return []byte(string(casedRunes[g.R.Intn(len(casedRunes))]))
	}
	if !g.Valid && g.R.Intn(3) == 0 {
		return invalidSeqs[g.R.Intn(len(invalidSeqs))]
	}
	return a[g.R.Intn(len(a))]
}

// Str returns a string of n atoms.
func (g *G) Str(n int) []byte {
	var b []byte
	for i := 0; i < n; i++ {
		b = append(b, g.atom()...)
	}
	return b
}

// RandRune returns a random code point, biased towards cased ones.
func (g *G) RandRune() rune {
	switch g.R.Intn(4) {
	case 0:
		return casedRunes[g.R.Intn(len(casedRunes))]
	case 1:
		return caselessRunes[g.R.Intn(len(caselessRunes))]
	case 2:
		return rune(g.R.Intn(0x3000))
	}
	for {
		r := rune(g.R.Intn(0x110000))
		if utf8.ValidRune(r) {
			return r
		}
	}
}

// Recase replaces every code point by a random member of its orbit (ill-formed bytes are kept,
// or — when invalid input is allowed — sometimes swapped with U+FFFD / another bad byte).
func (g *G) Recase(s []byte) []byte {
	var out []byte
	for len(s) > 0 {
		r, n := utf8.DecodeRune(s)
		if r == utf8.RuneError && n == 1 {
			if !g.Valid && g.R.Intn(3) == 0 {
				if g.R.Intn(2) == 0 {
					out = append(out, "�"...)
				} else {
					out = append(out, invalidSeqs[g.R.Intn(7)]...)
				}
			} else {
				out = append(out, s[0])
			}
		} else if r == utf8.RuneError && !g.Valid && g.R.Intn(3) == 0 {
			out = append(out, 0xFF)
		} else {
			o := Orbit(r)
			out = utf8.AppendRune(out, o[g.R.Intn(len(o))])
		}
		s = s[n:]
	}
	return out
}

// RecaseAll returns every re-casing of s (all orbit choices), up to limit results.
func RecaseAll(s []byte, limit int) [][]byte {
	res := [][]byte{{}}
	for len(s) > 0 {
		r, n := utf8.DecodeRune(s)
		var opts [][]byte
		if r == utf8.RuneError && n == 1 {
			opts = [][]byte{{s[0]}}
		} else {
			for _, x := range Orbit(r) {
				opts = append(opts, []byte(string(x)))
			}
		}
		var next [][]byte
		for _, p := range res {
			for _, o := range opts {
				if len(next) >= limit {
					break
				}
				q := append(append([]byte{}, p...), o...)
				next = append(next, q)
			}
		}
		res = next
		s = s[n:]
	}
	return res
}

// Mutate makes a near miss of s: replace / delete / insert one code point.
func (g *G) Mutate(s []byte) []byte {
	var rs [][]byte
	for t := s; len(t) > 0; {
		_, n := utf8.DecodeRune(t)
		rs = append(rs, t[:n])
		t = t[n:]
	}
	if len(rs) == 0 {
		return g.atom()
	}
	i := g.R.Intn(len(rs))
	var out []byte
	switch g.R.Intn(3) {
	case 0:
		rs[i] = g.atom()
	case 1:
		rs = append(rs[:i:i], rs[i+1:]...)
	default:
		rs = append(rs[:i:i], append([][]byte{g.atom()}, rs[i:]...)...)
	}
	for _, r := range rs {
		out = append(out, r...)
	}
	return out
}

// PadLens straddle every dispatch threshold of the search functions.
var PadLens = []int{0, 1, 2, 3, 5, 7, 8, 9, 13, 14, 15, 16, 17, 18, 30, 31, 32, 33, 34, 47, 48, 63, 64, 65, 70, 96, 130}

// Pad returns n bytes of filler.  kind 0: 'x'; 1: caseless mix; 2: decoys built from d (prefixes
// of the needle that do not complete a match); 3: random atoms.
func (g *G) Pad(n, kind int, d []byte) []byte {
	var b []byte
	switch kind {
	case 0:
		for len(b) < n {
			b = append(b, 'x')
		}
	case 1:
		fill := [][]byte{[]byte("0"), []byte("-"), []byte("世"), []byte("¿"), []byte("😀"), []byte(" ")}
		for len(b) < n {
			f := fill[g.R.Intn(len(fill))]
			if len(b)+len(f) > n {
				f = []byte("1")
			}
			b = append(b, f...)
		}
	case 2:
		if len(d) == 0 {
			return g.Pad(n, 0, nil)
		}
		for len(b) < n {
			b = append(b, d...)
			if g.R.Intn(3) == 0 {
				b = append(b, '1')
			}
		}
		b = b[:n]
		if g.Valid {
			// do not leave a truncated sequence at the end
			for len(b) > 0 && !utf8.Valid(b) {
				b = b[:len(b)-1]
			}
		}
	default:
		for len(b) < n {
			b = append(b, g.atom()...)
		}
	}
	return b
}

// Pair is one (haystack, needle) argument pair.
type Pair struct{ S, T []byte }

// firstRunes returns the first k code points of s as bytes.
func firstRunes(s []byte, k int) []byte {
	i := 0
	for ; k > 0 && i < len(s); k-- {
		_, n := utf8.DecodeRune(s[i:])
		i += n
	}
	return s[:i]
}

// Embedded: needle of 1..4 atoms; haystack = lpad + (re-cased needle | near miss | nothing) + rpad.
func (g *G) Embedded(n int, emit func(Pair)) {
	for i := 0; i < n; i++ {
		t := g.Str(1 + g.R.Intn(4))
		if g.R.Intn(8) == 0 {
			t = g.Str(5 + g.R.Intn(12)) // long needles (> maxLen bytes sometimes)
		}
		var mid []byte
		switch g.R.Intn(6) {
		case 0:
			mid = g.Mutate(g.Recase(t))
		case 1:
			mid = nil
		default:
			mid = g.Recase(t)
		}
		kind := g.R.Intn(4)
		var decoy []byte
		if kind == 2 {
			decoy = g.Recase(firstRunes(t, 1+g.R.Intn(2)))
		}
		l := g.Pad(PadLens[g.R.Intn(len(PadLens))], kind, decoy)
		r := g.Pad(PadLens[g.R.Intn(len(PadLens))], g.R.Intn(4), decoy)
		if g.R.Intn(3) == 0 {
			r = nil // match at the very end
		}
		s := append(append(append([]byte{}, l...), mid...), r...)
		emit(Pair{s, t})
	}
}

// Random pairs of short atom strings.
func (g *G) Random(n int, emit func(Pair)) {
	for i := 0; i < n; i++ {
		s := g.Str(g.R.Intn(9))
		var t []byte
		switch g.R.Intn(4) {
		case 0:
			t = g.Str(g.R.Intn(4))
		case 1:
			t = g.Recase(s)
		case 2:
			t = g.Mutate(g.Recase(s))
		default:
			// a re-cased sub-range of s
			rs := g.Recase(s)
			a := firstRunes(rs, g.R.Intn(5))
			rest := rs[len(a):]
			t = firstRunes(rest, 1+g.R.Intn(4))
		}
		emit(Pair{s, t})
	}
}

// LongNeedle: needle longer in bytes than the haystack (wide orbit members in the needle,
// narrow ones in the haystack).
func (g *G) LongNeedle(n int, emit func(Pair)) {
	wide := []string{"K", "ſ", "ẞ", "ⱥ", "ι", "Å", "ᲀ", "ẛ", "�"}
	narrow := []string{"k", "s", "ß", "Ⱥ", "ι", "å", "в", "ṡ", "\xff"}
	for i := 0; i < n; i++ {
		var s, t []byte
		m := 1 + g.R.Intn(8)
		for j := 0; j < m; j++ {
			k := g.R.Intn(len(wide))
			if g.Valid && k == len(wide)-1 {
				k = 0
			}
			switch g.R.Intn(5) {
			case 0:
				a := g.atom()
				s = append(s, a...)
				t = append(t, g.Recase(a)...)
			default:
				t = append(t, wide[k]...)
				s = append(s, narrow[k]...)
			}
		}
		switch g.R.Intn(5) {
		case 0:
			s = g.Mutate(s)
		case 1:
			s = append(g.Pad(g.R.Intn(4), 0, nil), s...)
		case 2:
			s = append(s, g.Pad(g.R.Intn(4), 0, nil)...)
		}
		emit(Pair{s, t})
	}
}

// SmallExhaustive: all haystacks of ≤ hs atoms × needles of ≤ ns atoms over a reduced alphabet,
// embedded in a few pads.  `stride` subsamples deterministically.
func (g *G) SmallExhaustive(hs, ns int, stride int, emit func(Pair)) {
	alpha := [][]byte{
		[]byte("a"), []byte("A"), []byte("k"), []byte("K"), []byte("K"), []byte("s"), []byte("ſ"),
		[]byte("ß"), []byte("ẞ"), []byte("Ⱥ"), []byte("ⱥ"), []byte("\U00010400"), []byte("\U00010428"),
		[]byte("İ"), []byte("i"), []byte("1"), []byte("世"), []byte("�"),
	}
	if !g.Valid {
		alpha = append(alpha, []byte{0xFF}, []byte{0x80}, []byte{0xE2, 0x84}, []byte{0xC2})
	}
	// levels[k] = all strings of exactly k atoms
	strs := func(k int) [][]byte {
		level := [][]byte{{}}
		out := [][]byte{{}}
		for i := 0; i < k; i++ {
			var next [][]byte
			for _, p := range level {
				for _, a := range alpha {
					next = append(next, append(append([]byte{}, p...), a...))
				}
			}
			out = append(out, next...)
			level = next
		}
		return out
	}
	H := strs(hs)
	N := strs(ns)
	cnt := 0
	pads := []int{0, 15, 33}
	for _, h := range H {
		for _, t := range N {
			cnt++
			if stride > 1 && (cnt+int(g.R.Int31n(int32(stride))))%stride != 0 {
				continue
			}
			p := pads[g.R.Intn(len(pads))]
			s := append(g.Pad(p, 0, nil), h...)
			emit(Pair{s, t})
		}
	}
}

// Decoys: haystacks full of bytes sharing the trailing bytes of a rune's encoding, followed by the
// rune / a fold partner / nothing: drives indexRuneCase across its cut-over.
func (g *G) Decoys(n int, emit func(s []byte, r rune)) {
	for i := 0; i < n; i++ {
		r := g.RandRune()
		for r < 0x80 {
			r = g.RandRune()
		}
		enc := []byte(string(r))
		reps := g.R.Intn(90)
		var s []byte
		tail := enc[1+g.R.Intn(len(enc)-1):]
		for j := 0; j < reps; j++ {
			if g.Valid {
				// another rune sharing the last byte(s)
				d := append([]byte{}, enc...)
				d[0] ^= 1 + byte(g.R.Intn(3))
				if utf8.Valid(d) && !utf8.Valid(d[:len(d)-1]) {
					if dr, _ := utf8.DecodeRune(d); !inOrbit(dr, r) {
						s = append(s, d...)
						continue
					}
				}
				s = append(s, 'x')
			} else {
				s = append(s, tail...)
			}
			if g.R.Intn(4) == 0 {
				s = append(s, 'y')
			}
		}
		switch g.R.Intn(4) {
		case 0:
		case 1:
			o := Orbit(r)
			s = append(s, string(o[g.R.Intn(len(o))])...)
		default:
			s = append(s, enc...)
		}
		s = append(s, g.Pad(g.R.Intn(5), 0, nil)...)
		emit(s, r)
	}
}

// InnerRepeatDecoys: a rune whose encoding repeats its last byte inside itself (3-byte: c1 == c2; 4-byte: c1 == c3, c2 == c3 or all
// three), preceded by 0..9 ASCII bytes and 0..10 two-byte decoys ending in that byte, so that a search for the last byte that gives up
// after too many false positives (the Cutover hand-off of indexRuneCase) gives up on every possible byte of the real occurrence —
// in particular on an interior byte of it, where the restart offset must reach back to the start of the rune.
func (g *G) InnerRepeatDecoys(n int, emit func(s []byte, r rune)) {
	for i := 0; i < n; i++ {
		L := byte(0x80 + g.R.Intn(0x40))
		other := byte(0x80 + g.R.Intn(0x40))
		for other == L {
			other = byte(0x80 + g.R.Intn(0x40))
		}
		var enc []byte
		switch g.R.Intn(5) {
		case 0:
			enc = []byte{byte(0xE1 + g.R.Intn(12)), L, L}
		case 1:
			enc = []byte{byte(0xF1 + g.R.Intn(3)), L, other, L}
		case 2:
			enc = []byte{byte(0xF1 + g.R.Intn(3)), other, L, L}
		case 3:
			enc = []byte{byte(0xF1 + g.R.Intn(3)), L, L, L}
		default:
			// cased 4-byte letters: Deseret / Osage / Old Hungarian (F0 90 xx yy) with yy == 0x90
			enc = []byte{0xF0, 0x90, byte(0x90 + g.R.Intn(0x30)), 0x90}
			L = 0x90
		}
		r, w := utf8.DecodeRune(enc)
		if r == utf8.RuneError || w != len(enc) {
			continue
		}
		s := g.Pad(g.R.Intn(10), 0, nil)
		for k := g.R.Intn(11); k > 0; k-- {
			if g.Valid || g.R.Intn(2) == 0 {
				s = append(s, byte(0xC2+g.R.Intn(0x1E)), L)
			} else {
				s = append(s, L)
			}
		}
		o := Orbit(r)
		if g.R.Intn(5) > 0 {
			s = append(s, string(o[g.R.Intn(len(o))])...)
		}
		switch g.R.Intn(3) {
		case 0:
			s = append(s, 'x')
			s = append(s, enc...)
		case 1:
			s = append(s, g.Pad(g.R.Intn(5), 0, nil)...)
		}
		emit(s, o[g.R.Intn(len(o))])
	}
}

func inOrbit(a, b rune) bool {
	for _, x := range Orbit(b) {
		if x == a {
			return true
		}
	}
	return false
}

// EdgeRunes are the rune arguments every rune-taking function is tried with.
var EdgeRunes = []rune{-1 << 31, -1, 0, 0x7F, 0x80, 0xD7FF, 0xD800, 0xDFFF, 0xE000, 0xFFFD, 0xFFFE, 0xFFFF, 0x10000, 0x7FF, 0x800, 0x10FFFF, 0x110000, 1<<31 - 1,
	'k', 'K', 0x212A, 's', 'S', 0x17F, 0x130, 0x131, 'i', 'I'}

// Ops2 emits the two-byte-string functions fns for pair p on both packages.
func Ops2(fns []string, sfx string, p Pair, emit func(impl.Op)) {
	hs, ht := impl.Hex(p.S), impl.Hex(p.T)
	for _, fn := range fns {
		emit(impl.Op{Fn: fn, Cfg: "s" + sfx, Args: []string{hs, ht}})
		emit(impl.Op{Fn: fn, Cfg: "b" + sfx, Args: []string{hs, ht}})
	}
}

// OpsRune emits rune-argument functions.
func OpsRune(fns []string, sfx string, s []byte, r rune, emit func(impl.Op)) {
	hs := impl.Hex(s)
	for _, fn := range fns {
		emit(impl.Op{Fn: fn, Cfg: "s" + sfx, Args: []string{hs, strconv.Itoa(int(r))}})
		emit(impl.Op{Fn: fn, Cfg: "b" + sfx, Args: []string{hs, strconv.Itoa(int(r))}})
	}
}

// OpsByte emits byte-argument functions.
func OpsByte(fns []string, sfx string, s []byte, c byte, emit func(impl.Op)) {
	hs := impl.Hex(s)
	for _, fn := range fns {
		emit(impl.Op{Fn: fn, Cfg: "s" + sfx, Args: []string{hs, strconv.Itoa(int(c))}})
		emit(impl.Op{Fn: fn, Cfg: "b" + sfx, Args: []string{hs, strconv.Itoa(int(c))}})
	}
}

// Ops1 emits one-argument functions.
func Ops1(fns []string, sfx string, s []byte, emit func(impl.Op)) {
	hs := impl.Hex(s)
	for _, fn := range fns {
		emit(impl.Op{Fn: fn, Cfg: "s" + sfx, Args: []string{hs}})
		emit(impl.Op{Fn: fn, Cfg: "b" + sfx, Args: []string{hs}})
	}
}

// ---- Rabin-Karp hash collisions ---------------------------------------------------------------

// Collisions returns pairs of distinct 2-rune windows with the same rolling hash
// (h = r0*prime + r1 mod 2^32) made of valid, caseless code points (fold = identity, checked by
// the caller-supplied predicate).  A search strategy that trusts the hash without verifying the
// window reports one as a match of the other.
func Collisions(prime uint32, caseless func(rune) bool, limit int) [][2][2]rune {
	var out [][2][2]rune
	for d0 := int64(1); d0 < 0x10F000 && len(out) < limit; d0++ {
		d1 := int64(int32(uint32(d0) * prime)) // r1' = r1 + d1 compensates r0' = r0 - d0
		if d1 > 0xFFFF || d1 < -0xFFFF || d1 == 0 {
			continue
		}
		// choose r0 > d0, r1 so that all four runes are valid and caseless
		for _, r0 := range []rune{0x4E00 + rune(d0), 0x1E100, 0x20000 + rune(d0%0x1000), 0xAC00 + rune(d0)} {
			r0p := r0 - rune(d0)
			for _, r1 := range []rune{0x4E00, 0x5000, 0xAC00, 0x3042} {
				r1p := r1 + rune(d1)
				if r0p <= 0x7F || r1p <= 0x7F || !utf8.ValidRune(r0) || !utf8.ValidRune(r0p) || !utf8.ValidRune(r1p) {
					continue
				}
				if r0 == 0xFFFD || r0p == 0xFFFD || r1p == 0xFFFD {
					continue
				}
				if !caseless(r0) || !caseless(r0p) || !caseless(r1) || !caseless(r1p) {
					continue
				}
				if uint32(r0)*prime+uint32(r1) != uint32(r0p)*prime+uint32(r1p) {
					continue
				}
				out = append(out, [2][2]rune{{r0, r1}, {r0p, r1p}})
				break
			}
		}
	}
	return out
}
