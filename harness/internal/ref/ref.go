// Package ref is a naive Go rendering of the rune-sequence specification `S` (lean/SC/Model/Spec.lean).
//
// It is NOT part of the trusted base and decides nothing: it only steers the coverage-guided witness
// search (harness/fuzz).  Every disagreement it finds is re-evaluated on the Lean specification through
// the driver before it is reported; a wrong answer here can only cost search power.
package ref

import (
	"strconv"
	"unicode"
	"unicode/utf8"

	"verif/harness/internal/impl"

	"github.com/charlievieth/strcase/verifhooks"
)

type seg struct {
	r   rune // folded code point
	off int  // byte offset
}

// Unicode switches the reference from the library's own fold table to the orbits of unicode.SimpleFold (representative:
// the least member).  Used by the directed table follow-up of cmd/corr, where the table data itself is suspect; equalities
// of folded code points are then independent of internal/tables, while the *order* between different orbits is not the
// library's, so callers must compare only the zero / non-zero outcome of Compare.
var Unicode bool

func fold(r rune) rune {
	if !Unicode {
		return verifhooks.CaseFold(r)
	}
	m := r
	for x := unicode.SimpleFold(r); x != r; x = unicode.SimpleFold(x) {
		if x < m {
			m = x
		}
	}
	return m
}

// dec: forward segmentation as utf8.DecodeRune does it, folded; the last entry is the end offset
func dec(s []byte) ([]rune, []int) {
	var rs []rune
	var off []int
	i := 0
	for i < len(s) {
		r, n := utf8.DecodeRune(s[i:])
		rs = append(rs, fold(r))
		off = append(off, i)
		i += n
	}
	off = append(off, len(s))
	return rs, off
}

func hasPrefixAt(a []rune, k int, b []rune) bool {
	if k+len(b) > len(a) {
		return false
	}
	for i := range b {
		if a[k+i] != b[i] {
			return false
		}
	}
	return true
}

func b2s(b bool) string {
	if b {
		return "1"
	}
	return "0"
}

func sl(o, l int) string {
	if l == 0 {
		return "(e)"
	}
	return "(" + strconv.Itoa(o) + "," + strconv.Itoa(l) + ")"
}

func isAlpha(c byte) bool { return 'A' <= c && c <= 'Z' || 'a' <= c && c <= 'z' }

func relative(c byte) []byte {
	switch c {
	case 'K', 'k':
		return []byte("K")
	case 'S', 's':
		return []byte("ſ")
	}
	return nil
}

func byteMatch(uni bool, c byte, s []byte) bool {
	if len(s) == 0 {
		return false
	}
	b := s[0]
	if b == c || isAlpha(c) && b|0x20 == c|0x20 {
		return true
	}
	if uni {
		if rel := relative(c); rel != nil && len(s) >= len(rel) && string(s[:len(rel)]) == string(rel) {
			return true
		}
	}
	return false
}

func unhex(s string) []byte {
	if s == "-" || s == "" {
		return nil
	}
	b := make([]byte, len(s)/2)
	for i := range b {
		v, _ := strconv.ParseUint(s[2*i:2*i+2], 16, 8)
		b[i] = byte(v)
	}
	return b
}

// Eval answers one op of the line protocol in the canonical result format ("" if the function is not covered).
func Eval(o impl.Op) string {
	arg := func(i int) string {
		if i < len(o.Args) {
			return o.Args[i]
		}
		return "-"
	}
	s := unhex(arg(0))
	t := unhex(arg(1))
	num := func() int64 { n, _ := strconv.ParseInt(arg(1), 10, 64); return n }
	fs, so := dec(s)
	switch o.Fn {
	case "IndexRune", "ContainsRune":
		r := num()
		res := -1
		if r >= 0 && utf8.ValidRune(rune(r)) {
			f := fold(rune(r))
			for k, x := range fs {
				if x == f {
					res = so[k]
					break
				}
			}
		}
		if o.Fn == "ContainsRune" {
			return b2s(res >= 0)
		}
		return strconv.Itoa(res)
	case "IndexByte", "IndexByteASCII", "LastIndexByte":
		c := byte(num())
		res := -1
		for i := range s {
			if byteMatch(o.Fn != "IndexByteASCII", c, s[i:]) {
				res = i
				if o.Fn != "LastIndexByte" {
					break
				}
			}
		}
		return strconv.Itoa(res)
	case "IndexNonASCII", "ContainsNonASCII":
		res := -1
		for i, b := range s {
			if b >= 0x80 {
				res = i
				break
			}
		}
		if o.Fn == "ContainsNonASCII" {
			return b2s(res >= 0)
		}
		return strconv.Itoa(res)
	}
	ft, _ := dec(t)
	n, m := len(fs), len(ft)
	first, last := -1, -1
	for k := 0; k+m <= n; k++ {
		if hasPrefixAt(fs, k, ft) {
			if first < 0 {
				first = k
			}
			last = k
		}
	}
	switch o.Fn {
	case "Compare":
		for i := 0; i < n && i < m; i++ {
			if fs[i] != ft[i] {
				if fs[i] < ft[i] {
					return "-1"
				}
				return "1"
			}
		}
		switch {
		case n < m:
			return "-1"
		case n > m:
			return "1"
		}
		return "0"
	case "EqualFold":
		return b2s(n == m && hasPrefixAt(fs, 0, ft))
	case "HasPrefix":
		return b2s(hasPrefixAt(fs, 0, ft))
	case "HasSuffix":
		return b2s(m <= n && hasPrefixAt(fs, n-m, ft))
	case "TrimPrefix", "CutPrefix":
		ok := hasPrefixAt(fs, 0, ft)
		r := sl(0, len(s))
		if ok {
			r = sl(so[m], len(s)-so[m])
		}
		if o.Fn == "CutPrefix" {
			return r + "," + b2s(ok)
		}
		return r
	case "TrimSuffix", "CutSuffix":
		ok := m <= n && hasPrefixAt(fs, n-m, ft)
		r := sl(0, len(s))
		if ok {
			r = sl(0, so[n-m])
		}
		if o.Fn == "CutSuffix" {
			return r + "," + b2s(ok)
		}
		return r
	case "Index":
		if first < 0 {
			return "-1"
		}
		return strconv.Itoa(so[first])
	case "LastIndex":
		if last < 0 {
			return "-1"
		}
		return strconv.Itoa(so[last])
	case "Contains":
		return b2s(first >= 0)
	case "Count":
		if len(t) == 0 {
			return strconv.Itoa(n + 1)
		}
		c := 0
		for k := 0; k+m <= n; {
			if hasPrefixAt(fs, k, ft) {
				c++
				k += m
			} else {
				k++
			}
		}
		return strconv.Itoa(c)
	case "Cut":
		if first < 0 {
			return sl(0, len(s)) + ",(e),0"
		}
		j := so[first+m]
		return sl(0, so[first]) + "," + sl(j, len(s)-j) + ",1"
	case "IndexAny", "LastIndexAny", "ContainsAny":
		in := func(x rune) bool {
			for _, y := range ft {
				if x == y {
					return true
				}
			}
			return false
		}
		res := -1
		for k, x := range fs {
			if in(x) {
				res = so[k]
				if o.Fn != "LastIndexAny" {
					break
				}
			}
		}
		if o.Fn == "ContainsAny" {
			return b2s(res >= 0)
		}
		return strconv.Itoa(res)
	}
	return ""
}
