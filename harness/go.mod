module verif/harness

go 1.21

require github.com/charlievieth/strcase v0.0.0

require golang.org/x/sys v0.28.0

replace github.com/charlievieth/strcase => /repo
