// ssafacts regenerates lean/SC/Gen/SsaFacts.lean: for every function of the four product packages
// (as the installed toolchain type-checks and compiles them for this platform) the go/ssa
// instructions that could write shared state, allocate, or start concurrent work:
//
//	Store / builtin copy  — with the root of the destination address (local Alloc, Parameter,
//	                        Global, FreeVar, or other)
//	MapUpdate, Send, Go, Defer, MakeSlice, MakeMap, MakeChan, MakeClosure, MakeInterface,
//	heap Alloc, builtin append, string<->[]byte/[]rune Convert, indirect (dynamic) calls,
//	calls leaving the product packages (callee name)
//
//	ssafacts -repo /repo -out /verif/lean/SC/Gen/SsaFacts.lean
package main

import (
	"flag"
	"fmt"
	"go/types"
	"os"
	"sort"
	"strings"

	"golang.org/x/tools/go/packages"
	"golang.org/x/tools/go/ssa"
	"golang.org/x/tools/go/ssa/ssautil"
)

const mod = "github.com/charlievieth/strcase"

func die(f string, a ...any) { fmt.Fprintf(os.Stderr, "ssafacts: "+f+"\n", a...); os.Exit(2) }

// root of an address expression
func root(v ssa.Value, depth int) string {
	if depth > 40 {
		return "other:deep"
	}
	switch x := v.(type) {
	case *ssa.Alloc:
		if x.Heap {
			return "heapalloc"
		}
		return "local"
	case *ssa.Parameter:
		return "param:" + x.Name()
	case *ssa.Global:
		return "global:" + x.Name()
	case *ssa.FreeVar:
		return "freevar:" + x.Name()
	case *ssa.IndexAddr:
		return root(x.X, depth+1)
	case *ssa.FieldAddr:
		return root(x.X, depth+1)
	case *ssa.Slice:
		return root(x.X, depth+1)
	case *ssa.ChangeType:
		return root(x.X, depth+1)
	case *ssa.Convert:
		return root(x.X, depth+1)
	case *ssa.UnOp: // load of a pointer/slice stored somewhere
		return "load(" + root(x.X, depth+1) + ")"
	case *ssa.Phi:
		var rs []string
		seen := map[string]bool{}
		for _, e := range x.Edges {
			if e == v {
				continue
			}
			r := root(e, depth+10)
			if !seen[r] {
				seen[r] = true
				rs = append(rs, r)
			}
		}
		sort.Strings(rs)
		return strings.Join(rs, "|")
	case *ssa.Call:
		return "call"
	case *ssa.Const:
		return "const"
	}
	return fmt.Sprintf("other:%T", v)
}

func lstr(s string) string {
	return `"` + strings.ReplaceAll(strings.ReplaceAll(s, `\`, `\\`), `"`, `\"`) + `"`
}

func main() {
	repo := flag.String("repo", "/repo", "")
	out := flag.String("out", "", "")
	tags := flag.String("tags", "", "")
	flag.Parse()
	cfg := &packages.Config{Mode: packages.LoadAllSyntax, Dir: *repo, BuildFlags: []string{"-tags=" + *tags}}
	pkgs, err := packages.Load(cfg, ".", "./bytcase", "./internal/bytealg", "./internal/tables")
	if err != nil {
		die("load: %v", err)
	}
	if packages.PrintErrors(pkgs) > 0 {
		die("packages have errors")
	}
	prog, spkgs := ssautil.AllPackages(pkgs, ssa.InstantiateGenerics)
	prog.Build()
	product := map[*ssa.Package]bool{}
	for _, p := range spkgs {
		if p != nil {
			product[p] = true
		}
	}
	type fact struct{ fn, kind, detail string }
	var facts []fact
	nfuncs, ninstr := 0, 0
	var fnNames []string
	for fn := range ssautil.AllFunctions(prog) {
		if fn.Pkg == nil || !product[fn.Pkg] {
			continue
		}
		// the synthetic package initialiser writes the package-level tables once, before main
		isInit := fn.Name() == "init" && fn.Synthetic != ""
		name := fn.RelString(nil)
		fnNames = append(fnNames, name)
		nfuncs++
		add := func(kind, detail string) {
			if isInit {
				kind = "init:" + kind
			}
			facts = append(facts, fact{name, kind, detail})
		}
		for _, b := range fn.Blocks {
			for _, in := range b.Instrs {
				ninstr++
				switch x := in.(type) {
				case *ssa.Store:
					add("store", root(x.Addr, 0))
				case *ssa.MapUpdate:
					add("mapupdate", "")
				case *ssa.Send:
					add("send", "")
				case *ssa.Go:
					add("go", "")
				case *ssa.Defer:
					add("defer", "")
				case *ssa.MakeSlice:
					add("makeslice", "")
				case *ssa.MakeMap:
					add("makemap", "")
				case *ssa.MakeChan:
					add("makechan", "")
				case *ssa.MakeClosure:
					add("makeclosure", "")
				case *ssa.MakeInterface:
					// boxing the argument of panic(...) is on the panic path only
					add("makeinterface", x.X.Type().String())
				case *ssa.Alloc:
					if x.Heap {
						add("heapalloc", x.Type().String())
					}
				case *ssa.Convert:
					from, to := x.X.Type().Underlying(), x.Type().Underlying()
					_, fs := from.(*types.Slice)
					_, ts := to.(*types.Slice)
					fb, _ := from.(*types.Basic)
					tb, _ := to.(*types.Basic)
					if (fs && tb != nil && tb.Info()&types.IsString != 0) || (ts && fb != nil && fb.Info()&types.IsString != 0) {
						add("convert", from.String()+"->"+to.String())
					}
				case ssa.CallInstruction:
					c := x.Common()
					if c.IsInvoke() {
						add("dyncall", "invoke "+c.Method.Name())
						break
					}
					switch callee := c.Value.(type) {
					case *ssa.Builtin:
						switch callee.Name() {
						case "append":
							add("append", "")
						case "copy":
							add("copy", root(c.Args[0], 0))
						case "panic", "len", "cap", "min", "max", "ssa:wrapnilchk":
						default:
							add("builtin", callee.Name())
						}
					case *ssa.Function:
						if callee.Pkg == nil || !product[callee.Pkg] {
							name := callee.RelString(nil)
							// functions that write through their first argument: record where it points
							if name == "unicode/utf8.EncodeRune" || name == "unicode/utf8.AppendRune" || strings.HasPrefix(name, "copy") {
								name += " dst=" + root(c.Args[0], 0)
							}
							add("extcall", name)
						}
					default:
						add("dyncall", fmt.Sprintf("%T", c.Value))
					}
				}
			}
		}
	}
	sort.Slice(facts, func(i, j int) bool {
		if facts[i].fn != facts[j].fn {
			return facts[i].fn < facts[j].fn
		}
		if facts[i].kind != facts[j].kind {
			return facts[i].kind < facts[j].kind
		}
		return facts[i].detail < facts[j].detail
	})
	// dedupe, keep counts
	type key struct{ fn, kind, detail string }
	cnt := map[key]int{}
	var keys []key
	for _, f := range facts {
		k := key{f.fn, f.kind, f.detail}
		if cnt[k] == 0 {
			keys = append(keys, k)
		}
		cnt[k]++
	}
	var b strings.Builder
	b.WriteString("-- GENERATED by /verif/harness/ssafacts (go/ssa) from the repository working tree. DO NOT EDIT.\n")
	b.WriteString("namespace Gen.Ssa\n")
	b.WriteString("/-- (function, kind, detail, count) -/\n")
	b.WriteString("def facts : List (String × String × String × Nat) := [\n")
	for i, k := range keys {
		sep := ","
		if i == len(keys)-1 {
			sep = ""
		}
		fmt.Fprintf(&b, "  (%s, %s, %s, %d)%s\n", lstr(k.fn), lstr(k.kind), lstr(k.detail), cnt[k], sep)
	}
	b.WriteString("]\n")
	fmt.Fprintf(&b, "def functions : Nat := %d\n", nfuncs)
	fmt.Fprintf(&b, "def instructions : Nat := %d\n", ninstr)
	b.WriteString("end Gen.Ssa\n")
	if old, err := os.ReadFile(*out); err == nil && string(old) == b.String() {
		fmt.Printf("ssafacts: %d functions, %d instructions, %d fact rows (unchanged)\n", nfuncs, ninstr, len(keys))
		return
	}
	if err := os.WriteFile(*out, []byte(b.String()), 0o644); err != nil {
		die("%v", err)
	}
	fmt.Printf("ssafacts: %d functions, %d instructions, %d fact rows\n", nfuncs, ninstr, len(keys))
}
