// ssagen regenerates lean/SC/Gen/GoSsa.lean: the functions of strcase.go and bytcase/bytcase.go, as the
// installed toolchain type-checks them for this platform, in go/ssa form, instruction by instruction, as
// literals of the deep embedding `GoSsa.Fn` (lean/SC/Model/GoSsa.lean).  The Lean interpreter `GoSsa.call`
// runs them; `SC/Proofs/Src*.lean` proves functions of the hand-written algorithm model equal to them.
//
//	ssagen -repo /repo -out /verif/lean/SC/Gen/GoSsa.lean
//
// Anything outside the modelled subset becomes `.stuck "<what>"`: the interpreter stops there, the
// correspondence (column G of the driver) reports it and the theorems about that function fail.
package main

import (
	"bytes"
	"flag"
	"fmt"
	"go/constant"
	"go/token"
	"go/types"
	"os"
	"path/filepath"
	"sort"
	"strings"

	"golang.org/x/tools/go/packages"
	"golang.org/x/tools/go/ssa"
	"golang.org/x/tools/go/ssa/ssautil"
)

const mod = "github.com/charlievieth/strcase"

func die(f string, a ...any) { fmt.Fprintf(os.Stderr, "ssagen: "+f+"\n", a...); os.Exit(2) }

func lstr(s string) string {
	return `"` + strings.ReplaceAll(strings.ReplaceAll(s, `\`, `\\`), `"`, `\"`) + `"`
}

func lint(v int64) string {
	if v < 0 {
		return fmt.Sprintf("(%d)", v)
	}
	return fmt.Sprintf("%d", v)
}

// integer type tag of the Lean model
func tyOf(t types.Type) (string, bool) {
	b, ok := t.Underlying().(*types.Basic)
	if !ok {
		return "", false
	}
	switch b.Kind() {
	case types.Int, types.Int64, types.UntypedInt, types.UntypedRune:
		return ".i64", true
	case types.Int32:
		return ".i32", true
	case types.Uint8:
		return ".u8", true
	case types.Uint16:
		return ".u16", true
	case types.Uint32:
		return ".u32", true
	case types.Uint, types.Uint64, types.Uintptr:
		return ".u64", true
	}
	return "", false
}

func isString(t types.Type) bool {
	b, ok := t.Underlying().(*types.Basic)
	return ok && b.Info()&types.IsString != 0
}

func isByteSlice(t types.Type) bool {
	s, ok := t.Underlying().(*types.Slice)
	if !ok {
		return false
	}
	b, ok := s.Elem().Underlying().(*types.Basic)
	return ok && b.Kind() == types.Uint8
}

func isBool(t types.Type) bool {
	b, ok := t.Underlying().(*types.Basic)
	return ok && b.Info()&types.IsBoolean != 0
}

type gen struct {
	fn   *ssa.Function
	regs map[ssa.Value]int
	next int
}

func (g *gen) opd(v ssa.Value) string {
	switch x := v.(type) {
	case *ssa.Const:
		if x.Value == nil {
			return ".nil"
		}
		switch x.Value.Kind() {
		case constant.Bool:
			if constant.BoolVal(x.Value) {
				return "(.b true)"
			}
			return "(.b false)"
		case constant.Int:
			if _, ok := tyOf(x.Type()); ok {
				if i, ok := constant.Int64Val(x.Value); ok {
					return "(.c " + lint(i) + ")"
				}
				if u, ok := constant.Uint64Val(x.Value); ok {
					return fmt.Sprintf("(.c %d)", u)
				}
			}
		case constant.String:
			s := constant.StringVal(x.Value)
			var sb strings.Builder
			sb.WriteString("(.s [")
			for i := 0; i < len(s); i++ {
				if i > 0 {
					sb.WriteString(", ")
				}
				fmt.Fprintf(&sb, "%d", s[i])
			}
			sb.WriteString("])")
			return sb.String()
		}
		return "(.bad " + lstr("const "+x.String()) + ")"
	case *ssa.Global:
		return "(.g " + lstr(x.Name()) + ")"
	}
	if r, ok := g.regs[v]; ok {
		return fmt.Sprintf("(.r %d)", r)
	}
	return "(.bad " + lstr(fmt.Sprintf("%T %s", v, v.Name())) + ")"
}

var bops = map[token.Token]string{
	token.ADD: ".add", token.SUB: ".sub", token.MUL: ".mul", token.QUO: ".quo", token.REM: ".rem",
	token.AND: ".and", token.OR: ".or", token.XOR: ".xor", token.SHL: ".shl", token.SHR: ".shr", token.AND_NOT: ".andnot",
	token.EQL: ".eq", token.NEQ: ".ne", token.LSS: ".lt", token.LEQ: ".le", token.GTR: ".gt", token.GEQ: ".ge",
}

func calleeName(c *ssa.Function) string {
	s := c.String()
	s = strings.ReplaceAll(s, mod+"/internal/", "")
	s = strings.ReplaceAll(s, mod+"/bytcase.", "")
	s = strings.ReplaceAll(s, mod+".", "")
	return s
}

// zero value of an allocated cell
func zeroVal(t types.Type) (string, bool) {
	switch u := t.Underlying().(type) {
	case *types.Basic:
		if _, ok := tyOf(t); ok {
			return "(.int 0)", true
		}
		if isBool(t) {
			return "(.bool false)", true
		}
		if isString(t) {
			return "(.str [])", true
		}
	case *types.Array:
		if _, ok := tyOf(u.Elem()); ok {
			return fmt.Sprintf("(.arr (List.replicate %d 0))", u.Len()), true
		}
	}
	return "", false
}

func (g *gen) instr(in ssa.Instruction) (string, bool) {
	stuck := func(what string) (string, bool) { return ".stuck " + lstr(what), true }
	dst := func(v ssa.Value) int { return g.regs[v] }
	switch x := in.(type) {
	case *ssa.DebugRef:
		return "", false
	case *ssa.Phi:
		var es []string
		for i, e := range x.Edges {
			es = append(es, fmt.Sprintf("(%d, %s)", x.Block().Preds[i].Index, g.opd(e)))
		}
		return fmt.Sprintf(".phi %d [%s]", dst(x), strings.Join(es, ", ")), true
	case *ssa.BinOp:
		op, ok := bops[x.Op]
		if !ok {
			return stuck("binop " + x.Op.String())
		}
		if ty, ok := tyOf(x.X.Type()); ok {
			return fmt.Sprintf(".bin %d %s %s %s %s", dst(x), op, ty, g.opd(x.X), g.opd(x.Y)), true
		}
		if x.Op == token.EQL || x.Op == token.NEQ {
			neg := "false"
			if x.Op == token.NEQ {
				neg = "true"
			}
			return fmt.Sprintf(".eqv %d %s %s %s", dst(x), neg, g.opd(x.X), g.opd(x.Y)), true
		}
		return stuck("binop " + x.Op.String() + " on " + x.X.Type().String())
	case *ssa.UnOp:
		switch x.Op {
		case token.NOT:
			return fmt.Sprintf(".not %d %s", dst(x), g.opd(x.X)), true
		case token.MUL:
			return fmt.Sprintf(".load %d %s", dst(x), g.opd(x.X)), true
		case token.SUB:
			if ty, ok := tyOf(x.X.Type()); ok {
				return fmt.Sprintf(".bin %d .sub %s (.c 0) %s", dst(x), ty, g.opd(x.X)), true
			}
		}
		return stuck("unop " + x.Op.String() + " on " + x.X.Type().String())
	case *ssa.Convert:
		from, okf := tyOf(x.X.Type())
		to, okt := tyOf(x.Type())
		switch {
		case okf && okt:
			return fmt.Sprintf(".conv %d %s %s", dst(x), to, g.opd(x.X)), true
		case okf && isString(x.Type()):
			_ = from
			return fmt.Sprintf(".runeStr %d %s", dst(x), g.opd(x.X)), true
		case (isString(x.X.Type()) || isByteSlice(x.X.Type())) && (isString(x.Type()) || isByteSlice(x.Type())):
			return fmt.Sprintf(".copy %d %s", dst(x), g.opd(x.X)), true
		}
		return stuck("convert " + x.X.Type().String() + " -> " + x.Type().String())
	case *ssa.ChangeType:
		return fmt.Sprintf(".copy %d %s", dst(x), g.opd(x.X)), true
	case *ssa.Call:
		var args []string
		for _, a := range x.Call.Args {
			args = append(args, g.opd(a))
		}
		if b, ok := x.Call.Value.(*ssa.Builtin); ok {
			if b.Name() == "len" && len(args) == 1 {
				return fmt.Sprintf(".len %d %s", dst(x), args[0]), true
			}
			return stuck("builtin " + b.Name())
		}
		c := x.Call.StaticCallee()
		if c == nil || x.Call.IsInvoke() {
			return stuck("dynamic call")
		}
		return fmt.Sprintf(".call %d %s [%s]", dst(x), lstr(calleeName(c)), strings.Join(args, ", ")), true
	case *ssa.Extract:
		return fmt.Sprintf(".extract %d %s %d", dst(x), g.opd(x.Tuple), x.Index), true
	case *ssa.Index:
		return fmt.Sprintf(".index %d %s %s", dst(x), g.opd(x.X), g.opd(x.Index)), true
	case *ssa.Lookup:
		if isString(x.X.Type()) && !x.CommaOk {
			return fmt.Sprintf(".index %d %s %s", dst(x), g.opd(x.X), g.opd(x.Index)), true
		}
		return stuck("lookup")
	case *ssa.IndexAddr:
		return fmt.Sprintf(".indexAddr %d %s %s", dst(x), g.opd(x.X), g.opd(x.Index)), true
	case *ssa.Slice:
		if x.Max != nil {
			return stuck("3-index slice")
		}
		o := func(v ssa.Value) string {
			if v == nil {
				return "none"
			}
			return "(some " + g.opd(v) + ")"
		}
		return fmt.Sprintf(".slice %d %s %s %s", dst(x), g.opd(x.X), o(x.Low), o(x.High)), true
	case *ssa.Range:
		if isString(x.X.Type()) {
			return fmt.Sprintf(".range %d %s", dst(x), g.opd(x.X)), true
		}
		return stuck("range over " + x.X.Type().String())
	case *ssa.Next:
		if x.IsString {
			return fmt.Sprintf(".next %d %s", dst(x), g.opd(x.Iter)), true
		}
		return stuck("next (map)")
	case *ssa.Alloc:
		p, ok := x.Type().Underlying().(*types.Pointer)
		if ok {
			if z, ok := zeroVal(p.Elem()); ok {
				return fmt.Sprintf(".alloc %d %s", dst(x), z), true
			}
		}
		return stuck("alloc " + x.Type().String())
	case *ssa.Store:
		return fmt.Sprintf(".store %s %s", g.opd(x.Addr), g.opd(x.Val)), true
	}
	return stuck(fmt.Sprintf("%T", in))
}

func (g *gen) term(in ssa.Instruction) string {
	b := in.Block()
	switch x := in.(type) {
	case *ssa.Jump:
		return fmt.Sprintf(".jump %d", b.Succs[0].Index)
	case *ssa.If:
		return fmt.Sprintf(".cond %s %d %d", g.opd(x.Cond), b.Succs[0].Index, b.Succs[1].Index)
	case *ssa.Return:
		var rs []string
		for _, r := range x.Results {
			rs = append(rs, g.opd(r))
		}
		return fmt.Sprintf(".ret [%s]", strings.Join(rs, ", "))
	case *ssa.Panic:
		return ".panic"
	}
	return ".panic"
}

func emitFn(w *bytes.Buffer, ns string, fn *ssa.Function) (string, int) {
	g := &gen{fn: fn, regs: map[ssa.Value]int{}}
	for _, p := range fn.Params {
		g.regs[p] = g.next
		g.next++
	}
	for _, b := range fn.Blocks {
		for _, in := range b.Instrs {
			if v, ok := in.(ssa.Value); ok {
				g.regs[v] = g.next
				g.next++
			}
		}
	}
	name := calleeName(fn)
	id := ns + "_" + strings.NewReplacer("(", "", ")", "", "*", "", ".", "_").Replace(name)
	n := 0
	var bnames []string
	for _, b := range fn.Blocks {
		var is []string
		var t string
		for _, in := range b.Instrs {
			switch in.(type) {
			case *ssa.Jump, *ssa.If, *ssa.Return, *ssa.Panic:
				t = g.term(in)
				continue
			}
			if s, ok := g.instr(in); ok {
				is = append(is, s)
				n++
			}
		}
		bn := fmt.Sprintf("%s_b%d", id, b.Index)
		bnames = append(bnames, bn)
		fmt.Fprintf(w, "def %s : Block := ⟨[", bn)
		for i, s := range is {
			if i > 0 {
				w.WriteString(",")
			}
			w.WriteString("\n  " + s)
		}
		fmt.Fprintf(w, "],\n  %s⟩\n", t)
	}
	fmt.Fprintf(w, "def %s : Fn := ⟨%s, %d, %d, [%s]⟩\n\n", id, lstr(name), len(fn.Params), g.next, strings.Join(bnames, ", "))
	return id, n
}

func main() {
	repo := flag.String("repo", "/repo", "")
	out := flag.String("out", "", "")
	flag.Parse()
	cfg := &packages.Config{Mode: packages.LoadAllSyntax, Dir: *repo}
	pkgs, err := packages.Load(cfg, ".", "./bytcase")
	if err != nil {
		die("load: %v", err)
	}
	if packages.PrintErrors(pkgs) > 0 {
		die("packages have errors")
	}
	prog, spkgs := ssautil.AllPackages(pkgs, ssa.InstantiateGenerics)
	prog.Build()
	var w bytes.Buffer
	w.WriteString("-- GENERATED by harness/ssagen from the repository's working tree (go/ssa form of strcase.go and bytcase/bytcase.go).  Do not edit.\n")
	w.WriteString("-- One module per Go function (SC/Gen/Src/<pkg>_<function>.lean) so that a proof about one function is re-checked only when that function's program text changes.\n")
	var imports bytes.Buffer
	var lists bytes.Buffer
	total := 0
	perFn := map[string][]byte{}
	for i, p := range spkgs {
		if p == nil {
			continue
		}
		ns := "str"
		if strings.HasSuffix(pkgs[i].PkgPath, "/bytcase") {
			ns = "byt"
		}
		var fns []*ssa.Function
		for _, m := range p.Members {
			if fn, ok := m.(*ssa.Function); ok && fn.Synthetic == "" && fn.Blocks != nil {
				fns = append(fns, fn)
			}
			// methods of named types
			if t, ok := m.(*ssa.Type); ok {
				for _, typ := range []types.Type{t.Type(), types.NewPointer(t.Type())} {
					ms := prog.MethodSets.MethodSet(typ)
					for j := 0; j < ms.Len(); j++ {
						if fn := prog.MethodValue(ms.At(j)); fn != nil && fn.Synthetic == "" && fn.Blocks != nil {
							fns = append(fns, fn)
						}
					}
				}
			}
		}
		sort.Slice(fns, func(a, b int) bool { return fns[a].Pos() < fns[b].Pos() })
		seen := map[*ssa.Function]bool{}
		var ids []string
		for _, fn := range fns {
			if seen[fn] || fn.Name() == "init" {
				continue
			}
			// test hooks of the verification harness are not product code
			if f := prog.Fset.Position(fn.Pos()).Filename; strings.HasSuffix(f, "export_verif.go") {
				continue
			}
			seen[fn] = true
			var fw bytes.Buffer
			fw.WriteString("-- GENERATED by harness/ssagen from the repository's working tree.  Do not edit.\n")
			fw.WriteString("import SC.Model.GoSsaSyntax\nset_option maxRecDepth 100000\nnamespace Gen.Src\nopen GoSsa GoSsa.Instr GoSsa.Term\n\n")
			id, n := emitFn(&fw, ns, fn)
			fw.WriteString("end Gen.Src\n")
			perFn[id] = fw.Bytes()
			fmt.Fprintf(&imports, "import SC.Gen.Src.%s\n", id)
			ids = append(ids, id)
			total += n
		}
		fmt.Fprintf(&lists, "def %s : Prog := [%s]\n\n", ns, strings.Join(ids, ", "))
	}
	w.Write(imports.Bytes())
	w.WriteString("namespace Gen.Src\nopen GoSsa\n\n")
	w.Write(lists.Bytes())
	w.WriteString("end Gen.Src\n")
	if *out == "" {
		os.Stdout.Write(w.Bytes())
		return
	}
	dir := filepath.Join(filepath.Dir(*out), "Src")
	if err := os.MkdirAll(dir, 0o755); err != nil {
		die("%v", err)
	}
	keep := map[string]bool{}
	for id, data := range perFn {
		f := filepath.Join(dir, id+".lean")
		keep[id+".lean"] = true
		if old, err := os.ReadFile(f); err != nil || !bytes.Equal(old, data) {
			if err := os.WriteFile(f, data, 0o644); err != nil {
				die("%v", err)
			}
		}
	}
	if ents, err := os.ReadDir(dir); err == nil {
		for _, e := range ents {
			if !keep[e.Name()] {
				os.Remove(filepath.Join(dir, e.Name()))
			}
		}
	}
	old, err := os.ReadFile(*out)
	if err != nil || !bytes.Equal(old, w.Bytes()) {
		if err := os.WriteFile(*out, w.Bytes(), 0o644); err != nil {
			die("%v", err)
		}
	}
	fmt.Printf("ssagen: %d instructions translated\n", total)
}
